"""C17 — chunked transfer coding decodes exactly and rejects chunk sizes that are not plain hex digits."""
from .. import core, sx
from ..areas import httpparse as hp
from ..extract import httpparse as xhp

HEX = b"0123456789abcdefABCDEF"
BADSIZES = [b"-5", b"+5", b"0x5", b"0X5", b"1_0", b"", b" ", b"zz", b"5g", b"-0", b"+0", b"0x0", b"0_0", b"\xb2", b"\xef\xbc\x95", b"5 5", b"5\t", b"\x0b5",
            b"0b1", b"1e1", b"0.5", b"--5", b"5-", b"_5", b"5_", b"0x", b"x5", b"\xff", b"5\x00", b"\xc2\xa05"]


def plain_hex(tok):
    return len(tok) > 0 and all(c in HEX for c in tok)


class C17(core.Check):
    pid = "C17"
    pkg = "HttpParse"
    props_mod = "HioModel.Props.C17"
    design_ref = "DESIGN.md §5 C17"
    technique = ("Lean 4: model of parseChunk in a loop; round-trip theorem over an explicit encoder for every body, chunk division, extension list and trailer list; "
                 "rejection theorem for every size token that is not plain hex; correspondence vs httping.parseChunk / packChunk; decode-of-encode oracle on the real code")
    level_text = ("Proved for all inputs: hex_roundtrip (all n), chunked_roundtrip (decode (encode chunks exts trailers ++ tail) = exactly those chunks with their sizes, the trailers and "
                  "tail, for every list of non-empty chunks with arbitrary bytes incl. CR/LF, every extension text without CR that is empty or starts with ';', every trailer list with "
                  "CR/LF/colon-free names and CR/LF-free values within the header limits), decoded_body, decoded_trailers (names distinct ignoring case come back as written), "
                  "bad_size_rejected + bad_size_never_a_chunk (every size line whose token is not 1*HEX after white-space stripping is the error, no chunk is produced, never another "
                  "number), good_size_value, named_bad_sizes (-5 +5 0x5 1_0 empty blank superscript-two), chunk_fragmentation_independent.  Tied to the code by the correspondence run; "
                  "the encode side is modelled too: pack_parse_roundtrip (parseChunk of packChunk of every non-empty piece of ANY length + packChunk(b'') = one chunk per piece, the last chunk, "
                  "tail untouched), pack_parse_body, size_constants_pinned (the module's size constants, regenerated: a new limit breaks this obligation and moves the generators' boundary "
                  "sizes); the model's packAll output is compared byte for byte with httping.packChunk's, and serving.Responder -> clienting.Respondent is run on the same pieces.")
    level_note = "Trusted: Lean kernel; translator (hexDigits / bytesSpace probes, MAX_* constants); sampled correspondence."
    quick_n = 900
    thorough_n = 40000
    rule = ("cases: (enc) body with CR/LF-heavy bytes x chunk sizes x per-chunk extension text x trailers, decoded by parseChunk under a seeded partition; "
            "(chunks) a table of malformed size tokens (sign, 0x, _, unicode digits, blanks, empty) and random near-hex tokens with/without extensions, and mutated encodings; "
            "(req/resp) complete chunked messages that ALSO carry Content-Length header(s) in either order on both sides (chunked wins), and both orders of the close signal; (pack) packChunk of piece lists and (wsgi) serving.Responder writing the pieces an application yields, decoded by parseChunk / Respondent, piece sizes random and at/around every "
            "size constant of the module and its multiples (read from the module); non-trivial = at least one chunk or an error decided; distinct by request line")
    trusted_base = ["translator harness/extract/httpparse.py", "correspondence harness/props/C17.py vs httping.parseChunk",
                    "oracle encodes with its own encoder / httping.packChunk and compares the decoded body, parameters and trailers"]
    assumptions = []

    def extract(self):
        return xhp.extract()

    def corpus(self):
        cs = [("chunks", t + b"\r\nabcde\r\n0\r\n\r\n", ()) for t in BADSIZES]
        cs += [("chunks", t + b";x=1\r\nabcde\r\n0\r\n\r\n", ()) for t in BADSIZES[:8]]
        cs += [("chunks", b"3\r\nabcd\r\n0\r\n\r\n", ()), ("chunks", b"3;a=b;c\r\nabc\r\n0\r\nX: y\r\n\r\nrest", (2, 9)),
               ("enc", b"a\r\nb\r\n\r\n0\r\n\r\n", (1, 4), (b";x", b" ; y = 2"), ((b"T", b"v"), (b"U", b"w w")), ()),
               ("enc", b"", (), (), (), ()), ("enc", b"x" * 300, (255, 16), (), (), (5, 6, 7)),
               ("enc", b"abcdef", (2, 2), (), ((b"T", b"v"),), (), (1, 2, 0, 1)),      # "02" "002" "2" then last chunk "00" + trailer
               ("enc", b"", (), (b";x",), ((b"T", b"v"), (b"U", b"w")), (), (3,)), ("enc", b"q", (), (), (), (), (0, 7)),
               ("pack", (b"hello", b"\r\n", b"x" * 26), (4, 9)), ("pack", (), ())]
        import random
        r0 = random.Random(3)
        wire = self._chunked_response(r0, b"abcdefghi", (3, 4, 2), (), (), ())
        for cutset in ((50,), (52,), (57,), (61,), (20, 52), tuple(range(1, len(wire)))):
            cs.append(("resp", False, wire, cutset, True, "cf"))
            cs.append(("resp", False, wire, cutset, True, None))
        w1 = self._chunked_response(r0, b"first body", (3,), (), (), ())
        w2 = self._chunked_response(r0, b"SECOND", (2, 2), (), (), ())
        w3 = b"HTTP/1.1 200 OK\r\nContent-Length: 5\r\n\r\nthird"
        self._resp_bodies[w3] = b"third"
        for ws in ((w1, w2), (w1, w2, w1), (w3, w1, w2), (w1, w3, w2)):
            cs.append(("clih", ws, ()))
            cs.append(("clih", ws, (len(ws[0]), len(ws[0]) + 10)))
        for extra in self.FRAMING:
            for te_first in (True, False):
                w = self._chunked_response(r0, b"abcdefghi", (3, 4), (), ((b"T", b"v"),), (), extra, te_first)
                cs.append(("resp", False, w, (25, 70), True, None))
                cs.append(("resp", False, w + w, (), True, None) if False else ("resp", False, w, (), True, "cf"))
                q = self._chunked_request(r0, b"abcdefghi", (3, 4), extra, te_first)
                cs.append(("req", q, (25, 70), None))
        cs += self._boundary_cases(None, big=False)
        return cs

    def _boundary_cases(self, rng, big):
        """pieces at and around every size constant of the module (and small multiples), alone, between small pieces,
        twice in a row, and as the last piece — through packChunk/parseChunk and through Responder/Respondent"""
        import random
        rng = rng or random.Random(17)
        cs = []
        sizes = [n for n in hp.boundary_sizes(limit=(1 << 21) if big else 140000) if n >= 4095]
        for n in sizes:
            p = hp.piece_of(rng, n)
            lists = [(p,), (b"ab", p, b"cd")]
            if n <= 70000:
                lists += [(p, p), (b"\r\n", p)]
            for ps in lists:
                for kind in ("pack", "wsgi"):
                    case = (kind, ps, ())
                    d = hp.case_data(case)
                    cuts = () if rng.random() < 0.5 else tuple(sorted({rng.randrange(1, len(d)) for _ in range(3)}))
                    cs.append((kind, ps, cuts))
        return cs

    _resp_bodies = {}

    def _chunked_response(self, rng, body, sizes, exts, trailers, pads, extra=(), te_first=True):
        """a complete chunked response; `extra` are further framing header lines (Content-Length ...) put before or after
        Transfer-Encoding: chunked wins over any Content-Length (RFC 7230 3.3.3, and the code on main)"""
        w, _ = hp.enc_wire(body, sizes, exts, trailers, pads)
        te = [b"Transfer-Encoding: chunked"]
        hs = te + list(extra) if te_first else list(extra) + te
        wire = b"HTTP/1.1 200 OK\r\n" + b"\r\n".join(hs) + b"\r\n\r\n" + w
        self._resp_bodies[wire] = body
        return wire

    _req_bodies = {}

    def _chunked_request(self, rng, body, sizes, extra=(), te_first=True):
        w, _ = hp.enc_wire(body, sizes, (), (), ())
        te = [b"Transfer-Encoding: chunked"]
        hs = te + list(extra) if te_first else list(extra) + te
        wire = b"POST /f HTTP/1.1\r\n" + b"\r\n".join(hs) + b"\r\n\r\n" + w
        self._req_bodies[wire] = body
        return wire

    FRAMING = [(), (b"Content-Length: 3",), (b"Content-Length: 0",), (b"Content-Length: 3", b"Content-Length: 5"), (b"content-length: 999",),
               (b"Content-Length: 3", b"Connection: keep-alive"), (b"Content-Length: x",), (b"Content-Length: -1",)]

    def generate(self, rng, n, tier):
        from hio.core.http import httping
        for _ in range(n):
            k = rng.random()
            if k < 0.03:     # several responses on one Client, chunked and with a length mixed; what was handed out must stay as it was
                ws = []
                for _ in range(rng.choice([2, 2, 3, 4])):
                    body = hp.rand_body(rng, rng.choice([1, 3, 5, 17, rng.randrange(1, 60)]))
                    if rng.random() < 0.7:
                        ws.append(self._chunked_response(rng, body, tuple(rng.choice([1, 2, 3, 16]) for _ in range(rng.randrange(0, 4))), (), (), ()))
                    else:
                        w = b"HTTP/1.1 200 OK\r\nContent-Length: %d\r\n\r\n" % len(body) + body
                        self._resp_bodies[w] = body
                        ws.append(w)
                d = b"".join(ws)
                yield ("clih", tuple(ws), hp.cuts_for(rng, d, rng.choice(["none", "two", "uniform", "term"])))
            elif k < 0.04:     # framing header combinations on both sides: chunked together with Content-Length(s), either order
                body = hp.rand_body(rng, rng.choice([0, 1, 3, 5, 17, rng.randrange(1, 60)]))
                sizes = tuple(rng.choice([1, 2, 3, 16, 40]) for _ in range(rng.randrange(0, 5)))
                extra = rng.choice(self.FRAMING)
                if rng.random() < 0.5:
                    wire = self._chunked_response(rng, body, sizes, (), (), (), extra, rng.random() < 0.5)
                    yield ("resp", False, wire, hp.cuts_for(rng, wire, rng.choice(["none", "two", "uniform", "term"])), True, None)
                else:
                    wire = self._chunked_request(rng, body, sizes, extra, rng.random() < 0.5)
                    yield ("req", wire, hp.cuts_for(rng, wire, rng.choice(["none", "two", "uniform", "term"])), None)
            elif k < 0.08:     # the same coding inside a response, both orders of the close signal and the last parse
                body = hp.rand_body(rng, rng.choice([1, 2, 15, 17, rng.randrange(1, 80)]))
                sizes = tuple(rng.choice([1, 2, 3, 15, 16, 17, 40]) for _ in range(rng.randrange(0, 6)))
                wire = self._chunked_response(rng, body, sizes, (), (), ())
                cuts = hp.cuts_for(rng, wire, rng.choice(["two", "uniform", "term", "ones", "tail"]))
                yield ("resp", False, wire, cuts, True, "cf" if rng.random() < 0.7 else None)
            elif k < 0.45:
                body = hp.rand_body(rng, rng.choice([0, 1, 2, 15, 16, 17, 255, 256, rng.randrange(0, 80)]))
                sizes = tuple(rng.choice([1, 2, 3, 15, 16, 17, 40, 255, 256]) for _ in range(rng.randrange(0, 6)))
                exts = tuple(rng.choice([b"", b"", b";a", b";a=b", b" ; n = v ", b";a=1;b=2;a=3", b";q=\"s t\"", b";", b";;x"]) for _ in range(rng.randrange(0, 5)))
                names = rng.sample([b"T", b"U", b"X-A", b"x-b", b"Etag"], rng.randrange(0, 4))
                trailers = tuple((nm, rng.choice([b"v", b"w w", b"1: 2", b"\xe9"])) for nm in names)
                pads = tuple(rng.choice([0, 0, 1, 2, 7]) for _ in range(rng.randrange(0, 7)))     # leading zeros, the last chunk too
                w, _ = hp.enc_wire(body, sizes, exts, trailers, pads)
                yield ("enc", body, sizes, exts, trailers, hp.cuts_for(rng, w), pads)
            elif k < 0.6:    # packChunk's own output, several chunks then the terminator
                small = [n for n in hp.boundary_sizes() if 0 < n <= 4097]
                bigs = [n for n in hp.boundary_sizes() if n > 4097]
                def size():
                    r = rng.random()
                    if r < 0.04 and bigs:
                        return rng.choice(bigs)
                    return rng.choice(small) if r < 0.5 else rng.randrange(1, 300)
                ps = tuple(hp.piece_of(rng, size()) for _ in range(rng.randrange(0, 4)))
                kind = "pack" if rng.random() < 0.6 else "wsgi"
                d = hp.case_data((kind, ps, ()))
                yield (kind, ps, hp.cuts_for(rng, d, None if len(d) < 3000 else rng.choice(["none", "two", "uniform", "tail"])))
            elif k < 0.85:   # size token table / near-hex tokens
                tok = rng.choice(BADSIZES) if rng.random() < 0.5 else bytes(rng.choice(b"0123456789abcdefABCDEFxX_+- \t") for _ in range(rng.randrange(1, 5)))
                ext = rng.choice([b"", b"", b";a=b", b" ;x"])
                w = tok + ext + b"\r\n" + b"abcdefghij"[:rng.randrange(0, 10)] + b"\r\n0\r\n\r\n"
                yield ("chunks", w, hp.cuts_for(rng, w))
            else:
                body = hp.rand_body(rng, rng.randrange(1, 30))
                w, _, _, _ = hp.chunk_encode(rng, body, trailers=[(b"T", b"v")] if rng.random() < 0.4 else None, eolmode=rng.choice(["crlf", "lf", "mixed"]))
                w = hp.mutate_bytes(rng, w)
                yield ("chunks", w, hp.cuts_for(rng, w))

    def exhaustive(self, tier):
        if tier != "thorough":
            return [], None
        alpha = b"05aAfFgx_+- "
        cs = [("chunks", bytes([a, b]) + b"\r\nabcdefghijklmnop\r\n0\r\n\r\n", ()) for a in alpha for b in alpha]
        cs += [("chunks", bytes([a]) + b"\r\nabcdefghijklmnop\r\n0\r\n\r\n", ()) for a in range(256)]
        cs += self._boundary_cases(None, big=True)
        cs += [("chunks", b"1" + bytes([c]) + b";" + bytes([c]) + b"a" + bytes([c]) + b"=" + bytes([c]) + b"b" + bytes([c]) + b"\r\nX\r\n0\r\n\r\n", ()) for c in range(256) if c not in (10, 13)]
        return cs, "every 1-byte size token, every 2-byte size token over the alphabet 05aAfFgx_+-<space>, every byte value around size / extension name / value; pieces at k*c-1, k*c, k*c+1 (k=1..3) for every size constant c of the module, packed and through the WSGI responder"

    def request(self, case):
        return hp.request_of(case)

    def run_impl(self, case):
        return hp.run_case(case)

    def compare_view(self, case, obs):
        return sx.dumps(hp.view_of(case, obs))

    @hp.total
    def oracle(self, case, obs):
        bad = []
        if case[0] == "wsgi":
            return self._oracle_wsgi(case, obs)
        if case[0] == "clih":
            esc, resps, stable = obs[0]
            if esc is not None:
                bad.append("exception-escaped")
                return bad
            want = [self._resp_bodies.get(w) for w in case[1]]
            if len(resps) != len(want):
                bad.append("response-missing")
            elif any(w is not None and (er or b != w) for (st, er, b), w in zip(resps, want)):
                bad.append("decoded-body-differs")
            if not stable:
                bad.append("handed-out-object-changed-later")      # a body / headers / entry the caller holds was modified afterwards
            return bad
        if case[0] == "req":
            # a complete chunked request (possibly with Content-Length headers as well): chunked wins, the body is the decoded body
            cut, whole = obs
            body = self._req_bodies.get(case[1])
            if cut != whole:
                bad.append("fragmented-differs-from-whole")
            if hp.has_escape(obs):
                bad.append("exception-escaped")
            if body is not None:
                msgs, tail = cut
                if len(msgs) != 1 or msgs[0][0] != "ok" or msgs[0][5] != body or not msgs[0][9]:
                    bad.append("decoded-body-differs")
                elif tail[0] != "more" or tail[1] != b"":
                    bad.append("leftover-after-last-chunk")
            return bad
        if case[0] == "resp":
            # a complete chunked response read in pieces, the close signalled before or after the parse of the last read:
            # the decoded body is the whole body either way, nothing left over
            cut, whole = obs
            body = self._resp_bodies.get(case[2])
            if body is None:        # not one of the complete encodings (a shrunk case): only the order of the close matters
                a, b = list(cut[0]), list(whole[0])
                if a and b and a[-1][0] == "ok" and a[-1][9] and b[-1] == ("err", "PrematureClosure") and a[:-1] == b[:-1]:
                    return bad
                if (cut[0], cut[1][0]) != (whole[0], whole[1][0]):
                    bad.append("close-order-changes-result")
                return bad
            for part in (cut, whole):
                msgs, tail, _ = part
                if len(msgs) != 1 or msgs[0][0] != "ok" or (body is not None and msgs[0][5] != body):
                    bad.append("decoded-body-differs")
                    break
                if tail[0] not in ("more", "stop") or tail[1] != b"":
                    bad.append("leftover-after-last-chunk")
                    break
            if cut != whole:
                bad.append("close-order-changes-result")
            return bad
        cut, whole = obs[-2], obs[-1]
        if cut != whole:
            bad.append("fragmented-differs-from-whole")
        if hp.has_escape((cut, whole)):
            bad.append("exception-escaped")
        out, status = cut
        if case[0] == "enc":
            body, sizes, exts, trailers = case[1:5]
            w, chunks = hp.enc_wire(body, sizes, exts, trailers, case[6] if len(case) > 6 else ())
            if status[0] != "done":
                bad.append("encoding-not-decoded")
            else:
                if b"".join(r[3] for r in out) != body or [r[3] for r in out[:-1]] != chunks:
                    bad.append("decoded-body-differs")
                if [r[0] for r in out] != [len(c) for c in chunks] + [0]:
                    bad.append("chunk-sizes-differ")
                if list(out[-1][2]) != [tuple(t) for t in trailers]:
                    bad.append("trailers-differ")
                if status[1] != b"":
                    bad.append("leftover-after-last-chunk")
        elif case[0] == "pack":
            # decode(packChunk(p1) ... packChunk(pn) packChunk(b"")) = the concatenated body, ended by the one last chunk,
            # nothing left over (how many chunks a piece becomes is the encoder's business)
            if status[0] != "done":
                bad.append("packed-chunks-not-decoded")
            else:
                if b"".join(r[3] for r in out) != b"".join(case[1]):
                    bad.append("decoded-body-differs")
                if status[1] != b"":
                    bad.append("leftover-after-last-chunk")
                if any(r[0] != len(r[3]) for r in out) or out[-1][0] != 0 or any(r[0] == 0 for r in out[:-1]):
                    bad.append("chunk-sizes-differ")
        else:
            data = case[1]
            i = data.find(b"\r\n")
            if i >= 0 and i <= 65536:
                tok = data[:i].partition(b";")[0].strip(b" \t\n\r\x0b\x0c")
                if not plain_hex(tok):
                    if out or status[0] != "err":
                        bad.append("bad-size-not-rejected")
                else:
                    n = int(tok, 16)
                    if out and out[0][0] != n:
                        bad.append("size-reinterpreted")
                    if not out and status[0] == "err" and status[1] == "BadChunkSize":
                        bad.append("good-size-rejected")
        return bad

    def _oracle_wsgi(self, case, obs):
        """Responder's chunked framing of the pieces an application yields, decoded by Respondent: one response, the body
        is the concatenation, nothing of it left on the connection"""
        bad = []
        cut, whole = obs
        if cut != whole:
            bad.append("fragmented-differs-from-whole")
        if hp.has_escape(obs):
            bad.append("exception-escaped")
        msgs, tail, _ = cut
        body = b"".join(case[1])
        if len(msgs) != 1 or msgs[0][0] != "ok":
            bad.append("wsgi-response-not-decoded")
        else:
            if msgs[0][5] != body:
                bad.append("decoded-body-differs")
            if not msgs[0][9]:
                bad.append("response-not-chunked")
        if tail != ("more", b""):
            bad.append("leftover-after-last-chunk")
        return bad

    @hp.safe(True)
    def nontrivial(self, case, obs):
        if case[0] == "clih":
            return True
        if case[0] in ("resp", "req"):
            return len(obs[0][0]) >= 1
        if case[0] == "wsgi":
            return len(obs[0][0]) >= 1
        return len(obs[-2][0]) >= 1 or obs[-2][1][0] == "err"

    @hp.safe(list)
    def features(self, case, obs):
        if case[0] == "clih":
            return ["clih", f"clih:responses:{len(case[1])}"]
        if case[0] == "req":
            return ["req", "framing:te+cl" if b"ontent-" in case[1].lower() else "framing:te"]
        if case[0] == "resp":
            return ["resp", "resp:close-first" if case[5] == "cf" else "resp:close-after", "framing:te+cl" if b"content-length" in case[2].lower() else "framing:te"]
        if case[0] == "wsgi":
            return ["wsgi", f"pieces:{min(len(case[1]), 4)}"] + [f"piece-size:{self._bucket(len(p))}" for p in case[1]]
        if case[0] == "pack":
            extra = [f"piece-size:{self._bucket(len(p))}" for p in case[1]]
        else:
            extra = []
        return extra + self._features(case, obs[-2])

    @staticmethod
    def _bucket(n):
        for _, c in hp.size_constants():
            for k in (1, 2, 3):
                if abs(n - k * c) <= 1:
                    return f"{k}x{c}{'%+d' % (n - k * c) if n != k * c else ''}"
        return "0" if n == 0 else "<256" if n < 256 else "<64k" if n < 65535 else "big"

    def _features(self, case, part):
        out, status = part
        f = [case[0], "status:" + status[0] + (":" + status[1] if status[0] == "err" else ""), f"chunks:{min(len(out), 4)}"]
        if any(r[1] for r in out):
            f.append("extensions")
        if out and out[-1][2]:
            f.append("trailers")
        cuts = hp.case_cuts(case) or ()
        f.append("cuts:" + ("0" if not cuts else "some"))
        return f

    def shrink(self, case):
        return hp.shrink_case(case)

    @hp.safe(list)
    def mutate(self, rng, case):
        return list(hp.shrink_case(case))[:40]


CHECK = C17()
