"""C18 — WSGI responses are framed and pipelined requests answered in order (hio.core.http.serving)."""
from .. import core, sx
from ..areas import httpflow as hf
from ..extract import httpflow as xhf

CONN = {0: None, 1: b"keep-alive", 2: b"close", 3: b"Keep-Alive"}
STATUSES = [b"200 Tr\xe8s bien", b"404 Nicht gef\xfcnden \xa9", 200, 404, 201, 500, b"200 OK", b"200 OK", b"201 Created", b"404 Not Found", b"500 Internal Server Error", b"299 Custom Reason Text", b"202 Accepted"]
HNAMES = [b"X-A", b"x-lower-name", b"Content-Type", b"Set-Cookie", b"Set-Cookie", b"ETag", b"X-UPPER", b"x_under", b"Cache-Control", b"X-1a2b"]
HVALS = [b"", b"\xc3\xa9", b"1", b"text/plain; charset=utf-8", b"a=b; Path=/", b"W/\"xyz\"", b"no-cache, no-store", b"v with  two spaces", b"caf\xe9", b"0", b"chunked-not", b"close?"]
NASTY = [b"\r\n", b"0\r\n\r\n", b"HTTP/1.1 200 OK\r\n\r\n", b"\n", b"\r", b"5\r\nhello\r\n", b"Content-Length: 3\r\n", b"\x00\xff"]


def app_err(app):
    """None | ("replaces", err) — the error is raised before any body byte left, it becomes the response | ("cuts", k) — raised after the head
    went out: the response ends after the k items yielded so far"""
    if len(app) <= 6 or app[6] is None:
        return None
    if app[6][0] == "crash":
        return ("crashes",)
    k = app[6][0]
    if k < 0:
        return ("replaces", app[6])
    if any(app[5][1]) or any(app[3][:k]):
        return ("cuts", k)
    return ("replaces", app[6])


def expected_body(app):
    status, headers, clen, pieces, retval = app[:5]
    written = app[5][1] if len(app) > 5 else []
    e = app_err(app)
    if e and e[0] == "cuts":
        return b"".join(written) + b"".join(pieces[:e[1]])
    full = b"".join(written) + b"".join(pieces) + (retval or b"")
    return full


TE_NAMES = [b"Transfer-Encoding", b"transfer-encoding", b"TRANSFER-ENCODING", b"Transfer-encoding"]
TE_VALUES = [b"chunked", b"chunked", b"Chunked", b"CHUNKED"]
ERR_STATUS = [400, 401, 404, 404, 409, 418, 500, 503, 599, 777]
ERR_TEXT = [b"", b"", b"Not here", b"Le probl\xe8me", b"two\nlines", b"x" * 40, b"a: b", b"0"]


class C18(core.Check):
    pid = "C18"
    pkg = "HttpFlow"
    props_mod = "HioModel.Props.C18"
    design_ref = "DESIGN.md §5 C18, §7 F28 F29"
    technique = ("Lean 4 theorems over an executable model of Responder (start/build/write/reset/service) and the serviceReqs/serviceReps hand-over on one "
                 "connection; differential run of the compiled model against the real hio Server driven through a scripted servant/socket; "
                 "independent oracle = stdlib http.client parsing the raw bytes the server queued")
    level_text = ("Proved for every request list and every app behaviour (unbounded, structural induction; the stateful Responder run is first shown equal to a closed form, "
                  "respond_eq): clamp (with a declared Content-Length L the bytes after the head are exactly the first L bytes the app produced — never more), "
                  "close_iff_not_persisted + answers_until_first_close (closed <-> some request is not persistent; the app is called once per request up to and including "
                  "the first non-persistent one), one_response_parses_back and responses_parse_back_partial (a response-framing parser defined in Lean — head lines, "
                  "Content-Length or chunked body — recovers, in request order and with nothing left over, exactly status line, header list and body of every response "
                  "of well-formed app output, under the guard that each response is delimited), self_delimiting_partial (every response is delimited unless the request "
                  "is HTTP/1.0 and the app declares no Content-Length = F29, proved to fail on a witness (f29_not_delimited) and for EVERY such response (undelimited_never_parses); recorded as C18-K1). "
                  "Framing given by the application: app_listed_chunked_is_chunked (an app that lists Transfer-Encoding: chunked itself, any case, is chunked and terminated like any other). "
                  "Applications that raise HTTPError: error_length_is_the_servers (for every error, whatever headers it carries, the response has exactly one Content-Length and it is the "
                  "rendered text's), error_response_as_app + error_response_parses_back (the error response parses back to its status, headers and text, delimited), "
                  "error_after_head_ends_response, serveX_no_error. "
                  "The model is tied to serving.py by a seeded differential run (raw bytes, closed flag, app call count) under random fragmentation of the request "
                  "stream, service-cycle gaps and send quotas; default Server header and version string are re-extracted from the code on every run.")
    level_note = ("Trusted: Lean kernel + propext/Classical.choice/Quot.sound; the hand-written model's faithfulness is carried by the sampled correspondence; "
                  "request parsing/fragmentation independence is C13's; an app callable that raises another exception when called gets no response and the connection is closed (crash_closes_and_answers_nothing_more, serveX_closed_iff); app behaviours outside the quantifier (an iterator that raises something other than httping.HTTPError, app lists a Content-Length or a coding other than chunked "
                  "through the header list, output shorter than its declared length, 1xx/204/304, HEAD) are not generated.")
    quick_n = 700
    thorough_n = 12000
    rule = ("case = (requests on one connection [(version 1.0|1.1, Connection none|keep-alive|close|Keep-Alive, body length|none)], app behaviour per request "
            "[status, header list (sometimes with the app's own Transfer-Encoding: chunked), Content-Length none|exact|smaller than output|0, body pieces incl. empty and CRLF/chunk/status-line look-alikes, generator return value, "
            "start_response restarts / write() callable, HTTPError raised at once | after k items with status, reason, title, detail, fault, headers incl. a foreign Content-Length], "
            "fragmentation cut points of the request stream + service cycles between fragments, send quota per cycle). "
            "non-trivial = at least 2 responses on the connection or a body of >= 2 non-empty pieces; distinct by request line")
    trusted_base = ["correspondence harness/props/C18.py: compiled model driver vs hio.core.http.serving.Server over a scripted servant (harness/areas/httpflow.py)",
                    "translator harness/extract/httpflow.py (default Server header, version string, status phrase of the model's head)",
                    "oracle parser: CPython http.client.HTTPResponse",
                    "Date header frozen by patching httping.httpDate1123 in the harness process"]
    assumptions = ["request parsing is fragmentation independent (property C13) — the model takes parsed requests",
                   "the app's output is at least as long as a Content-Length it declares; an app whose ITERATOR raises raises httping.HTTPError (the documented way to fail); the callable itself may raise anything"]

    def extract(self):
        return xhf.extract()

    # ------------------------------------------------------------------ cases
    def corpus(self):
        A = (b"200 OK", [(b"X-A", b"1")], None, [b"ab", b"", b"cd"], None)
        B = (b"200 OK", [], 4, [b"abcdef"], None)
        Z = (b"404 Not Found", [(b"Set-Cookie", b"a=1"), (b"Set-Cookie", b"b=2")], 0, [], None)
        E = (b"200 OK", [], None, [], None)
        G = (b"200 OK", [(b"server", b"mine"), (b"DATE", b"now")], None, [b"x"], b"tail")
        return [
            ([(1, 0, None), (1, 0, None)], [A, A], ([], 1), None),            # F28 witness: 2nd chunked response on a connection
            ([(1, 0, None), (1, 0, None)], [B, A], ([], 1), None),            # F28 variant: chunked after a length-delimited one
            ([(1, 0, None), (1, 0, None), (1, 2, None)], [A, B, A], ([10, 30], 2), 7),
            ([(0, 1, None), (0, 1, None)], [A, A], ([], 1), None),            # F29 witness
            ([(0, 0, None), (0, 1, None)], [A, A], ([], 1), 5),
            ([(1, 0, None), (0, 1, None), (1, 0, None)], [A, B, A], ([], 0), None),   # version switches on one connection
            ([(1, 0, 3), (1, 2, None), (1, 0, None)], [Z, E, A], ([], 1), 1),
            ([(1, 3, None), (1, 0, None)], [E, G], ([5], 3), None),
            # found by the generator (fixed, dee4961): persisted flag of the request in progress closed the connection early
            ([(1, 1, None), (0, 0, 100), (0, 0, None)], [E, E, E], ([81, 113, 134, 152, 176], 1), None),
            # virtual time: HTTP/1.0 keep-alive and HTTP/1.1 connections that are idle for longer than the server's timeout, a stalling app, a POST whose
            # body arrives complete and alone followed by another request in a later pass
            ([(0, 1, None), (0, 1, 7), (0, 1, None)], [A, B, A], ("paced", [7, 60, 0], 0), None),
            ([(0, 3, None), (0, 1, None)], [(b"200 OK", [], 6, [b"ab", b"", b"", b"", b"", b"", b"", b"cd", b"", b"", b"", b"", b"", b"", b"ef"], None), A], ("paced", [0, 7], 1), None),
            ([(1, 0, 5), (1, 0, None), (1, 2, None)], [A, (b"200 OK", [], None, [b"x"] + [b""] * 8 + [b"y"], None), B], ("paced", [60, 7, 0], 2), None),
            # error restart before anything is written: the first call declares a Content-Length, the replacement does not (and vice versa); write() callable
            ([(1, 0, None), (1, 0, None)], [(b"500 Internal Server Error", [(b"X-E", b"1")], None, [b"replacement body, longer than five"], None, ([(b"200 OK", [], 5)], [])), A], ([], 1), None),
            ([(1, 0, None), (1, 2, None)], [(b"200 OK", [], 3, [b"abcdef"], None, ([(b"404 Not Found", [(b"X-Old", b"o")], None), (200, [], 1000)], [b"w1", b"w2"])), B], ([], 1), None),
            ([(0, 1, None), (0, 1, None)], [(b"200 OK", [], 4, [b"cd"], None, ([], [b"ab"])), A], ([], 1), 3),
            ([(0, 3, None), (1, 0, None)], [B, (b"200 OK", [], 6, [b"ab", b"", b"cdef", b"gh"], None)], ([], 1), 3),
            # the app lists Transfer-Encoding: chunked itself (name / value in any case), pipelined
            ([(1, 0, None), (1, 0, None)], [(b"200 OK", [(b"Transfer-Encoding", b"chunked")], None, [b"ab", b"cd"], None), A], ([], 1), None),
            ([(1, 0, None), (1, 0, None)], [(b"200 OK", [(b"X-A", b"1"), (b"transfer-encoding", b"Chunked")], None, [b"ab", b"", b"cd"], b"t"), B], ([], 1), None),
            # the app callable raises (not an HTTPError) on a persistent request with the next request already buffered: no response, connection closed
            ([(1, 0, None), (1, 0, None)], [(b"200 OK", [], None, [b"ab"], None, ([], []), ("crash", 0)), A], ([], 1), None),
            ([(1, 0, None), (0, 1, 3), (1, 0, None)], [B, (b"200 OK", [], 2, [b"ab"], None, ([], []), ("crash", 3)), A], ([], 1), None),
            # the app raises HTTPError: at once, before the first non-empty item (the error carries a Content-Length that is not the text's), after the head
            ([(1, 0, None), (1, 0, None)], [(b"200 OK", [], None, [b"ab"], None, ([], []), (-1, 404, b"", b"Not here", b"d", None, [])), A], ([], 1), None),
            ([(1, 0, None), (1, 0, None)], [(b"200 OK", [(b"X-A", b"1")], 5, [b"", b"abcde"], None, ([], []), (1, 503, b"Busy", b"T", b"", 7, [(b"Retry-After", b"7"), (b"Content-Length", b"100")])), A], ([], 1), None),
            ([(0, 1, None), (0, 1, None)], [(b"200 OK", [], None, [b""], None, ([], []), (1, 418, b"", b"", b"", 0, [(b"content-length", b"1"), (b"Content-Type", b"text/html")])), B], ([], 1), None),
            ([(1, 0, None), (1, 0, None)], [(b"200 OK", [], None, [b"ab", b"cd"], b"tail", ([], []), (1, 500, b"", b"T", b"d", None, [(b"Content-Length", b"3")])), A], ([], 1), None),
        ]

    def exhaustive(self, tier):
        if tier != "thorough":
            return [], None
        A = (b"200 OK", [(b"X-A", b"1")], None, [b"ab", b"", b"cd"], None)
        B = (b"200 OK", [], 4, [b"ab", b"cd"], None)
        C = (b"404 Not Found", [], 3, [b"abcdef"], b"zz")
        reqs = [(v, c, None) for v in (0, 1) for c in (0, 1, 2, 3)]
        cs = [([r], [a], ([], 1), None) for r in reqs for a in (A, B, C)]
        cs += [([r1, r2], [a1, a2], ([], 1), None) for r1 in reqs for r2 in reqs for a1 in (A, B, C) for a2 in (A, B, C)]
        return cs, "all connections of 1 and 2 requests over {HTTP/1.0,1.1} x {no Connection, keep-alive, close, Keep-Alive} x app {no length, exact length, clamped length}"

    def _app(self, rng):
        status = rng.choice(STATUSES)
        hs = []
        for _ in range(rng.choice([0, 0, 1, 1, 2, 3, 5])):
            hs.append((rng.choice(HNAMES), rng.choice(HVALS)))
        if rng.random() < 0.08:
            hs.append((rng.choice([b"Server", b"server", b"SERVER"]), b"custom/1.0"))
        if rng.random() < 0.08:
            hs.append((rng.choice([b"Date", b"date"]), b"Fri, 02 Jan 1970 00:00:00 GMT"))
        pieces = []
        for _ in range(rng.choice([0, 1, 1, 2, 3, 4, 6])):
            k = rng.random()
            if k < 0.25:
                pieces.append(b"")
            elif k < 0.4:
                pieces.append(rng.choice(NASTY))
            else:
                pieces.append(bytes(rng.choice([rng.randrange(256), 97 + rng.randrange(26)]) for _ in range(rng.choice([1, 2, 3, 9, 15, 16, 17, 40, 255, 256, 300, 4095, 4096, 4097] if rng.random() < 0.15 else [1, 2, 3, 9, 15, 16, 17, 40, 300]))))
        retval = None
        if rng.random() < 0.15:
            retval = rng.choice([b"", b"tail", b"\r\n"])
        total = len(b"".join(pieces) + (retval or b""))
        k = rng.random()
        if k < 0.45:
            clen = None
        elif k < 0.75:
            clen = total
        elif k < 0.9:
            clen = rng.randrange(0, total + 1)
        else:
            clen = 0
        if rng.random() < 0.3:
            # start_response called more than once before anything is written (error restart, with exc_info): status, headers and
            # Content-Length of the earlier calls differ from the final ones; and/or body pieces handed to the write() callable
            restarts = []
            for _ in range(rng.choice([0, 1, 1, 2])):
                restarts.append((rng.choice([b"200 OK", b"500 Internal Server Error", 404]), [(rng.choice(HNAMES), rng.choice(HVALS))] if rng.random() < 0.5 else [],
                                 rng.choice([None, 0, 1, 3, 5, 1000])))
            written = [bytes(97 + rng.randrange(26) for _ in range(rng.choice([1, 2, 7, 40]))) for _ in range(rng.choice([0, 0, 1, 2]))]
            if clen is not None and written:
                clen = rng.choice([clen + len(b"".join(written)), clen])
            return (status, hs, clen, pieces, retval, (restarts, written))
        return (status, hs, clen, pieces, retval)

    def _err(self, rng, app):
        """the app raises httping.HTTPError somewhere: at once, after k items of its iterator; the error carries its own status, texts, fault code and
        headers — among them framing headers (a Content-Length that is not the length of the rendered text)"""
        status, hs, clen, pieces, retval = app[:5]
        rw = app[5] if len(app) > 5 else ([], [])
        k = rng.choice([-1, 0, 0, len(pieces)] + list(range(len(pieces) + 1)))
        ehs, seen = [], set()
        for _ in range(rng.choice([0, 0, 1, 2, 3])):
            nm = rng.choice([b"X-Err", b"content-type", b"Content-Type", b"WWW-Authenticate", b"Retry-After", b"x-e2"])
            if nm.lower() not in seen:
                seen.add(nm.lower())
                ehs.append((nm, rng.choice([b"text/html", b"application/problem+json", b"7", b"Basic realm=\"r\"", b""])))
        if rng.random() < 0.45:
            ehs.insert(rng.randrange(len(ehs) + 1), (rng.choice([b"Content-Length", b"content-length", b"CONTENT-LENGTH"]), rng.choice([b"0", b"1", b"5", b"17", b"100", b"4000"])))
        err = (k, rng.choice(ERR_STATUS), rng.choice([b"", b"", b"Custom Reason", b"Raison \xe9trange"]), rng.choice(ERR_TEXT), rng.choice(ERR_TEXT),
               rng.choice([None, None, 0, 7, 12345]), ehs)
        app = (status, hs, clen, pieces, retval, rw, err)
        e = app_err(app)
        if e[0] == "cuts" and clen is not None:
            # an app that declared a length and then fails short of it is outside the quantifier: keep the declaration only if it is reached
            produced = len(expected_body(app))
            app = (status, hs, rng.choice([None, produced, produced // 2]), pieces, retval, rw, err)
        return app

    def generate(self, rng, n, tier):
        for case in self._generate(rng, n, tier):
            # framing headers given by the APP (inside the quantifier: Transfer-Encoding: chunked, any case, for an HTTP/1.1 request and no declared length)
            # and apps that raise HTTPError; on the apps of every kind of case
            def touch(reqs, apps):
                for i, (r, a) in enumerate(zip(reqs, apps)):
                    e = app_err(a)
                    if r[0] == 1 and a[2] is None and not (len(a) > 5 and any(rs[2] is not None for rs in a[5][0])) and rng.random() < 0.14:
                        hs = list(a[1])
                        hs.insert(rng.randrange(len(hs) + 1), (rng.choice(TE_NAMES), rng.choice(TE_VALUES)))
                        a = (a[0], hs) + tuple(a[2:])
                    if rng.random() < 0.14:
                        a = self._err(rng, a)
                    elif rng.random() < 0.06:
                        # the app callable raises something else when it is called: no response, the server closes the connection
                        a = tuple(a[:5]) + ((a[5] if len(a) > 5 else ([], [])), ("crash", rng.randrange(4)))
                    apps[i] = a
            if case[0] == "multi":
                for conn in case[1]:
                    touch(conn[0], conn[1])
            elif case[0] == "loop":
                touch(case[1][0], case[1][1])
            else:
                touch(case[0], case[1])
            yield case

    def _generate(self, rng, n, tier):
        for _ in range(n):
            m = rng.choice([1, 2, 2, 3, 3, 4, 6])
            reqs = []
            for _ in range(m):
                ver = 1 if rng.random() < 0.72 else 0
                c = rng.random()
                if ver == 1:
                    conn = 0 if c < 0.6 else (1 if c < 0.75 else (3 if c < 0.82 else 2))
                else:
                    conn = 1 if c < 0.5 else (3 if c < 0.65 else (0 if c < 0.9 else 2))
                blen = None if rng.random() < 0.8 else rng.choice([0, 1, 5, 100])
                reqs.append((ver, conn, blen))
            apps = [self._app(rng) for _ in range(m)]
            total = sum(len(hf.c18_request_bytes(r)) for r in reqs)
            cuts = sorted(rng.randrange(0, total + 1) for _ in range(rng.choice([0, 0, 1, 2, 5])))
            gap = rng.choice([0, 1, 1, 2, 3])
            quota = rng.choice([None, None, None, 1, 2, 7, 64, 1000])
            if rng.random() < 0.15:
                # several connections on the same Server object: at once from different addresses, or one after the other from the same address;
                # sometimes a client goes away in the middle of a request
                conns = [(reqs, apps, None)]
                for _ in range(rng.choice([1, 1, 2])):
                    m2 = rng.choice([1, 2, 3])
                    r2 = [(1 if rng.random() < 0.7 else 0, rng.choice([0, 1, 2, 3]), None if rng.random() < 0.7 else rng.choice([1, 30])) for _ in range(m2)]
                    conns.append((r2, [self._app(rng) for _ in range(m2)], None))
                if rng.random() < 0.35:
                    j = rng.randrange(len(conns))
                    total_j = sum(len(hf.c18_request_bytes(r, "/c%d" % j)) for r in conns[j][0])
                    conns[j] = (conns[j][0], conns[j][1], rng.randrange(1, max(2, total_j)))
                yield ("multi", conns, rng.choice([0, 0, 1]))
                continue
            if rng.random() < 0.3:
                # virtual TIME: every request arrives complete and alone in its own pass (also with its body), long idle gaps between the
                # exchanges, a slow clock so that an app yielding empty pieces really stalls.  Before the first persistent request is parsed
                # the connection is subject to the server's idle timeout (C12's matter): long gaps / stalls only from then on
                first_persistent = hf.c18_persisted(reqs[0])
                idles = [rng.choice([0, 0, 1, 2, 7, 60] if first_persistent else [0, 0, 1, 2]) for _ in reqs]
                tock = rng.choice([0, 0, 1, 2])
                if rng.random() < 0.5:
                    j = rng.randrange(m)
                    reqs[j] = (reqs[j][0], reqs[j][1], rng.choice([1, 5, 100, 3000]))
                if tock:
                    for j in range(m):
                        a = apps[j]
                        if j == 0 and not first_persistent:
                            apps[j] = (a[0], a[1], a[2], [p for p in a[3] if p]) + tuple(a[4:])
                        elif rng.random() < 0.5:
                            k = rng.randrange(len(a[3]) + 1)
                            apps[j] = (a[0], a[1], a[2], a[3][:k] + [b""] * rng.choice([3, 6, 9]) + a[3][k:]) + tuple(a[4:])
                yield (reqs, apps, ("paced", idles, tock), quota if not tock else None)
                continue
            sched = (cuts, gap) if rng.random() < 0.7 else (cuts, gap, rng.choice([1, 7, 16, 100, 8096]))
            if tier == "thorough" and rng.random() < 0.004:
                yield ("loop", (reqs, apps, (cuts, gap), None))       # the same kind of case over real loopback sockets
                continue
            yield (reqs, apps, sched, quota)

    @staticmethod
    def _conn_req(reqs, apps):
        def err(a):
            if len(a) <= 6 or a[6] is None:
                return None
            if a[6][0] == "crash":
                return "crash"
            k, st, reason, title, detail, fault, ehs = a[6]
            return (0 if k < 0 else len(a[5][1]) + k, st, reason, title, detail, fault, [(n, v) for n, v in ehs])
        return ([(v, CONN[c]) for v, c, _ in reqs],
                [(a[0], [(n, v) for n, v in a[1]], a[2], (list(a[5][1]) if len(a) > 5 else []) + list(a[3]), a[4] or b"", err(a)) for a in apps])

    @staticmethod
    def _complete(reqs, eof_at, j):
        """how many requests of the stream are completely delivered before the client goes away"""
        if eof_at is None:
            return len(reqs)
        n, pos = 0, 0
        for r in reqs:
            pos += len(hf.c18_request_bytes(r, "/c%d" % j))
            if pos > eof_at:
                break
            n += 1
        return n

    def request(self, case):
        if case[0] == "loop":
            return ("c18",) + self._conn_req(case[1][0], case[1][1])
        if case[0] == "multi":
            out = []
            for j, (reqs, apps, eof_at) in enumerate(case[1]):
                n = self._complete(reqs, eof_at, j)
                out.append((eof_at is not None,) + self._conn_req(reqs[:n], apps[:n]))
            return ("c18m", out)
        return ("c18",) + self._conn_req(case[0], case[1])

    # ------------------------------------------------------------------ real code
    def run_impl(self, case):
        if case[0] == "loop":
            try:
                o = hf.c18_run_loopback(case[1])
            except hf.LoopbackInfra as ex:
                raise core.Infra(str(ex))
            return (o["raw"], o["closed"], o["calls"])
        if case[0] == "multi":
            outs = hf.c18_run_multi(case[1], case[2])
            return [("eof", o["closed"]) if conn[2] is not None else (o["raw"], o["closed"], o["calls"]) for conn, o in zip(case[1], outs)]
        o = hf.c18_run(case)
        if o["pending"]:
            raise core.Infra("server still has unsent bytes after the cycle budget")
        return (o["raw"], o["closed"], o["calls"])

    # ------------------------------------------------------------------ the property
    def _oracle1(self, case, obs):
        reqs, apps, _, _ = case
        raw, closed, calls = obs
        bad = []
        # a request whose app crashes when called ends the connection like a non-persistent one, and gets no response at all
        crashes = [bool(app_err(a)) and app_err(a)[0] == "crashes" for a in apps]
        persistent = [hf.c18_persisted(r) and not c for r, c in zip(reqs, crashes)]
        n_exp = (persistent.index(False) + 1) if False in persistent else len(reqs)
        if closed != (False in persistent):
            bad.append("close-iff-not-persistent")
        if calls != n_exp:
            bad.append("responses-one-per-request-until-close")
        if crashes[n_exp - 1]:
            n_exp -= 1              # responses expected on the wire: one per request BEFORE the crashed one, in order, and nothing after
        parsed, used = hf.parse_responses(raw, n_exp)
        if n_exp == 0 and raw:
            bad.append("extra-bytes-after-last-response")
        for i in range(n_exp):
            status, headers, clen, pieces, retval = apps[i][:5]
            if i >= len(parsed) or "error" in parsed[i]:
                bad.append("response-missing-or-unparseable")
                return bad
            p = parsed[i]
            stays_open = persistent[i]
            if p["delimited"] == "close" and stays_open:
                bad.append("not-self-delimiting")
                return bad          # everything behind it is swallowed by this body: nothing more can be judged
            e = app_err(apps[i])
            if e and e[0] == "replaces":
                # the app failed with an HTTPError before a byte of its response left: the client gets the ERROR as a response of its own — the
                # error's status and headers, text/plain unless it says otherwise, the rendered text as body, delimited by the server
                _, est, ereason, etitle, edetail, efault, ehs = e[1]
                if p["status"] != est or not p["reason"] or (ereason and p["reason"] != ereason.decode("latin-1").strip()):
                    bad.append("status-differs")
                got = [(k.lower(), v) for k, v in p["headers"]]
                for name, value in ehs:
                    if name.lower() != b"content-length" and (name.decode("latin-1").lower(), value.decode("latin-1").strip()) not in got:
                        bad.append("header-lost")
                        break
                if not any(n.lower() == b"content-type" for n, _ in ehs) and ("content-type", "text/plain") not in got:
                    bad.append("error-without-content-type")
                text = b"%d %s\n%s\n%s\n%s" % (est, p["reason"].encode("latin-1") if not ereason else ereason, etitle, edetail, b"" if efault is None else b"%d" % efault)
                if p["delimited"] == "close" or [v for k, v in got if k == "content-length"] != [str(len(text))]:
                    bad.append("error-response-length-not-its-own")
                if p["body"] != text:
                    bad.append("body-differs")
                continue
            if isinstance(status, int):        # the app gave only a code: the phrase is the server's
                if p["status"] != status or not p["reason"]:
                    bad.append("status-differs")
            else:
                code, _, reason = status.decode("latin-1").partition(" ")
                if p["status"] != int(code) or p["reason"] != reason.strip():
                    bad.append("status-differs")
            got = [(k.lower(), v) for k, v in p["headers"]]
            for name, value in headers:
                if name.lower() == b"transfer-encoding":
                    # the app asks for chunked itself: the response must then BE chunked (the coding name is case-insensitive, RFC 7230 4)
                    if p["delimited"] != "chunked":
                        bad.append("announced-chunked-but-is-not")
                elif (name.decode("latin-1").lower(), value.decode("latin-1")) not in got:
                    bad.append("header-lost")
                    break
            full = expected_body(apps[i])
            if clen is not None:
                if len(p["body"]) > clen:
                    bad.append("body-exceeds-content-length")
                if len(full) >= clen and p["body"] != full[:clen]:
                    bad.append("body-differs")
            elif p["body"] != full:
                bad.append("body-differs")
        if not bad and used != len(raw):
            bad.append("extra-bytes-after-last-response")
        return bad

    def _f29_at(self, case):
        """index of the first request that is HTTP/1.0 keep-alive answered without Content-Length while the connection stays open"""
        reqs, apps, _, _ = case
        for i, r in enumerate(reqs):
            e = app_err(apps[i])
            if not hf.c18_persisted(r) or (e and e[0] == "crashes"):
                return None
            if r[0] == 0 and apps[i][2] is None and not (e and e[0] == "replaces"):      # an error response always carries its length
                return i
        return None

    def _known1(self, case, obs, clauses):
        if clauses == ["not-self-delimiting"] and self._f29_at(case) is not None:
            # every response before it must have been fine (the oracle stops at the first undelimited one) and that one is the F29 request
            reqs, apps, _, _ = case
            parsed, _ = hf.parse_responses(obs[0], len(reqs))
            if len(parsed) == self._f29_at(case) + 1:
                return "C18-K1"
        return None

    def _nontrivial1(self, case, obs):
        return obs[2] >= 2 or any(sum(1 for p in a[3] if p) >= 2 for a in case[1])

    def _features1(self, case, obs):
        reqs, apps, quota = case[0], case[1], case[3]
        paced = case[2][0] == "paced"
        cuts, gap = ([], 1) if paced else (case[2][0], case[2][1])
        f = [f"reqs={min(len(reqs), 5)}", f"answered={min(obs[2], 5)}", "closed" if obs[1] else "open",
             "quota" if quota else "noquota", f"gap={gap}", "fragmented" if cuts else "whole"]
        for i in range(obs[2]):
            r, a = reqs[i], apps[i]
            e = app_err(a)
            if e and e[0] == "crashes":
                f.append("app:crashes-when-called:" + ("persistent-request" if hf.c18_persisted(r) else "last-request") + (":more-requests-buffered" if i + 1 < len(reqs) else ""))
                continue
            kind = ("error" if e and e[0] == "replaces" else ("len" if a[2] is not None else ("chunked" if r[0] == 1 else "bare"))) + ("/1.%d" % r[0])
            f.append("resp:" + kind)
            if a[2] is not None and a[2] < len(expected_body(a)):
                f.append("resp:clamped")
            if i > 0:
                f.append("resp:after-" + ("len" if apps[i - 1][2] is not None else "nolen"))
        if self._f29_at(case) is not None:
            f.append("f29-trigger")
        return f

    def _shrink1(self, case):
        reqs, apps, quota = case[0], case[1], case[3]
        sched = case[2]
        cuts, gap = ([], 1) if sched[0] == "paced" else (sched[0], sched[1])
        if sched[0] == "paced":
            yield (reqs, apps, ("paced", [0] * len(reqs), 0), quota)
        if cuts or quota is not None or gap != 1:
            yield (reqs, apps, ([], 1), None)
        for i in range(len(reqs)):
            if len(reqs) > 1:
                yield (reqs[:i] + reqs[i + 1:], apps[:i] + apps[i + 1:], ("paced", (sched[1][:i] + sched[1][i + 1:]), sched[2]) if sched[0] == "paced" else ([], gap), quota)
        for i, app in enumerate(apps):
            st, hs, cl, ps, rv = app[:5]
            def put(a, extra=app[5:]):
                return (reqs, apps[:i] + [tuple(a) + tuple(extra)] + apps[i + 1:], sched, quota)
            if len(app) > 6 and app[6] is not None:
                yield put((st, hs, cl, ps, rv), (app[5],))
                if app[6][0] == "crash":
                    continue
                k, est, er, et, ed, ef, eh = app[6]
                for j in range(len(eh)):
                    yield put((st, hs, cl, ps, rv), (app[5], (k, est, er, et, ed, ef, eh[:j] + eh[j + 1:])))
                if et or ed or ef is not None or er:
                    yield put((st, hs, cl, ps, rv), (app[5], (k, est, b"", b"", b"", None, eh)))
                continue
            if len(app) > 5:
                yield put((st, hs, cl, ps, rv), ())
                rs, wr = app[5]
                for j in range(len(rs)):
                    yield put((st, hs, cl, ps, rv), ((rs[:j] + rs[j + 1:], wr),))
                for j in range(len(wr)):
                    yield put((st, hs, cl, ps, rv), ((rs, wr[:j] + wr[j + 1:]),))
            for j in range(len(hs)):
                yield put((st, hs[:j] + hs[j + 1:], cl, ps, rv))
            if rv:
                yield put((st, hs, cl, ps, None))
            for j in range(len(ps)):
                yield put((st, hs, cl if cl is None else min(cl, len(b"".join(ps[:j] + ps[j + 1:]))), ps[:j] + ps[j + 1:], rv))
            for j, p in enumerate(ps):
                if len(p) > 2:
                    yield put((st, hs, cl if cl is None else min(cl, len(b"".join(ps)) - len(p) + 2), ps[:j] + [p[:2]] + ps[j + 1:], rv))
        for i, (v, c, b) in enumerate(reqs):
            if b is not None:
                yield (reqs[:i] + [(v, c, None)] + reqs[i + 1:], apps, sched, quota)

    def mutate(self, rng, case):
        return list(self.shrink(case))[:40]


    # ------------------------------------------------------------------ single connection / several connections on one Server
    @staticmethod
    def _as_single(conn):
        return (conn[0], conn[1], ([], 1), None)

    def oracle(self, case, obs):
        try:
            if case[0] == "loop":
                return self._oracle1(case[1], obs)
            if case[0] != "multi":
                return self._oracle1(case, obs)
            seen = []
            for conn, o in zip(case[1], obs):
                if conn[2] is not None:
                    cl = [] if o[1] else ["dropped-connection-not-closed"]
                else:
                    cl = self._oracle1(self._as_single(conn), o)
                seen += [c for c in cl if c not in seen]
            return seen
        except (IndexError, KeyError, TypeError, ValueError, AttributeError) as ex:
            return ["observation-not-accountable:" + type(ex).__name__]

    def known(self, case, obs, clauses):
        if case[0] == "loop":
            return self._known1(case[1], obs, clauses)
        if case[0] != "multi":
            return self._known1(case, obs, clauses)
        kid = None
        for conn, o in zip(case[1], obs):
            if conn[2] is not None:
                if not o[1]:
                    return None
                continue
            cl = self._oracle1(self._as_single(conn), o)
            if cl:
                kid = self._known1(self._as_single(conn), o, cl)
                if kid is None:
                    return None
        return kid

    def nontrivial(self, case, obs):
        if case[0] == "loop":
            return self._nontrivial1(case[1], obs)
        if case[0] == "multi":
            return True
        return self._nontrivial1(case, obs)

    def features(self, case, obs):
        if case[0] == "loop":
            return ["real-loopback-sockets"] + self._features1(case[1], obs)
        if case[0] != "multi":
            f = self._features1(case, obs)
            if case[2][0] == "paced":
                f.append("paced:one-request-per-pass")
                if any(g >= 5 for g in case[2][1]):
                    f.append("paced:idle-longer-than-tymeout")
                if case[2][2]:
                    f.append("paced:slow-clock")
                    if any(b"" in a[3] for a in case[1]):
                        f.append("paced:app-stalls-while-time-passes")
                if any(r[2] for r in case[0]):
                    f.append("paced:request-body-complete-and-alone")
            elif len(case[2]) > 2:
                f.append(f"bs={case[2][2]}")
            if any(isinstance(a[0], int) for a in case[1]):
                f.append("status:int")
            for r, a in zip(case[0], case[1]):
                e = app_err(a)
                if e and e[0] == "crashes":
                    continue
                if e:
                    f.append("app:raises-HTTPError:" + ("before-any-byte" if e[0] == "replaces" else "after-the-head"))
                    if e[0] == "replaces":
                        if a[6][0] < 0:
                            f.append("app:raises-before-start_response")
                        if any(n.lower() == b"content-length" for n, _ in a[6][6]):
                            f.append("error-carries-content-length")
                        if a[6][0] > 0:
                            f.append("app:raises-after-empty-items")
                        if not a[6][2]:
                            f.append("error-reason-from-table" if a[6][1] in (400, 401, 404, 409, 500, 503) else "error-reason-unknown-status")
                if any(n.lower() == b"transfer-encoding" for n, _ in a[1]):
                    f.append("app:lists-transfer-encoding-chunked" + ("" if any(v == b"chunked" for n, v in a[1] if n.lower() == b"transfer-encoding") else ":other-case"))
            for a in case[1]:
                if len(a) > 5:
                    if a[5][0]:
                        f.append("app:start_response-restart" + (":drops-content-length" if a[2] is None and any(r[2] is not None for r in a[5][0]) else ""))
                    if a[5][1]:
                        f.append("app:write-callable")
            if any(not isinstance(a[0], int) and any(c > 127 for c in a[0]) for a in case[1]):
                f.append("status:latin-1-reason")
            return f
        f = ["multi", f"conns={len(case[1])}", "interleaved" if case[2] == 0 else "same-address-one-after-the-other"]
        if any(c[2] is not None for c in case[1]):
            f.append("multi:client-goes-away-mid-request")
        return f

    def shrink(self, case):
        if case[0] == "loop":
            for c in self._shrink1(case[1]):
                yield ("loop", c)
            return
        if case[0] != "multi":
            yield from self._shrink1(case)
            return
        conns, mode = case[1], case[2]
        for j in range(len(conns)):
            if len(conns) > 1:
                yield ("multi", conns[:j] + conns[j + 1:], mode)
        for j, conn in enumerate(conns):
            if conn[2] is None:
                for c in self._shrink1(self._as_single(conn)):
                    if c[2] == ([], 1) and c[3] is None:
                        yield ("multi", conns[:j] + [(c[0], c[1], None)] + conns[j + 1:], mode)
        if len(conns) == 1 and conns[0][2] is None:
            yield self._as_single(conns[0])


CHECK = C18()
