"""C16 — no client-sent bytes make the HTTP server's service loop raise; the client likewise on response bytes."""
from .. import core, sx
from ..areas import httpparse as hp
from ..extract import httpparse as xhp

NEAR = [b"GET / HTTP/1.1\r\nHost x\r\n\r\n", b"GET / HTTP/1.1\r\nHost:x\r\n\r\n", b"POST / HTTP/1.1\r\nTransfer-Encoding: chunked\r\n\r\n-5\r\nabc\r\n0\r\n\r\n",
        b"POST / HTTP/1.1\r\nTransfer-Encoding: chunked\r\n\r\nzz\r\n", b"POST / HTTP/1.1\r\nTransfer-Encoding: chunked\r\n\r\n3\r\nabcd\r\n0\r\n\r\n",
        b"POST / HTTP/1.1\r\nTransfer-Encoding: chunked\r\n\r\n3;a=b\r\nabc\r\n0\r\n\r\n", b"POST / HTTP/1.1\r\nTransfer-Encoding: chunked\r\n\r\n\xb2\r\n",
        b"GET http://h:99999/ HTTP/1.1\r\n\r\n", b"GET http://h:ab/ HTTP/1.1\r\n\r\n", b"GET http://[::1/ HTTP/1.1\r\n\r\n", b"GET //%5B/ HTTP/1.1\r\n\r\n",
        b"BAD / HTTP/1.1\r\n\r\n", b"GET / HTTP/2.0\r\n\r\n", b"GET /\r\n\r\n", b"\r\n", b" \r\n", b"GET / HTTP/1.0\r\n\r\n", b"GET / HTTP/1.1\r\nConnection: close\r\n\r\n",
        b"POST / HTTP/1.1\r\nContent-Length: 2\r\n\r\n\xff\xfe",
        b"POST / HTTP/1.1\r\nContent-Type: application/json\r\nContent-Length: 20000\r\n\r\n" + b"[" * 20000,     # RecursionError in json
        b"POST / HTTP/1.1\r\nContent-Type: application/json\r\nContent-Length: 24000\r\n\r\n" + b"{\"a\":" * 4000, b"POST / HTTP/1.1\r\nContent-Length: -1\r\n\r\n", b"POST / HTTP/1.1\r\nContent-Length: x\r\n\r\n",
        b"GET / HTTP/1.1\r\n" + b"A: 1\r\n" * 0 + b"".join(b"H%d: v\r\n" % i for i in range(101)) + b"\r\n", b"GET /" + b"a" * 66000 + b" HTTP/1.1\r\n\r\n",
        b"GET / HTTP/1.1\r\nA: " + b"v" * 66000 + b"\r\n\r\n", b"GET / HTTP/1.1\nA: " + b"v" * 66000 + b"\n\n",
        b"POST / HTTP/1.1\r\nTransfer-Encoding: chunked\r\n\r\n1;" + b"e" * 66000 + b"\r\na\r\n0\r\n\r\n",
        b"POST / HTTP/1.1\r\nTransfer-Encoding: chunked\r\n\r\n1\r\na" + b"x" * 66000 + b"\r\n0\r\n\r\n",
        b"POST / HTTP/1.1\r\nTransfer-Encoding: chunked\r\n\r\n0\r\nT: " + b"v" * 66000 + b"\r\n\r\n",
        # format metacharacters in every client-controlled string that ends up in an error message
        b"GET http://example.com:99999/items/{id} HTTP/1.1\r\n\r\n", b"GET http://[::1/{0}/{} HTTP/1.1\r\n\r\n", b"GET http://h:ab/%s%(x)s HTTP/1.1\r\n\r\n",
        b"GET / HTTP/1.1\r\nHost{0} {x}\r\n\r\n", b"GET / HTTP/1.1\r\n{}\r\n\r\n", b"{0} / HTTP/1.1\r\n\r\n", b"GET / {x}/1.1\r\n\r\n", b"GET / HTTP/{0}\r\n\r\n",
        b"POST / HTTP/1.1\r\nTransfer-Encoding: chunked\r\n\r\n{0}\r\n", b"POST / HTTP/1.1\r\nTransfer-Encoding: chunked\r\n\r\n1\r\na{x}%s\r\n",
        b"POST / HTTP/1.1\r\nContent-Length: {0}\r\n\r\n",
        # obs-fold: a FIRST header / trailer line that starts with white space (no previous header to continue)
        b"GET / HTTP/1.1\r\n X: 1\r\n\r\n", b"GET / HTTP/1.1\r\n\tX: 1\r\nHost: h\r\n\r\n", b"GET / HTTP/1.1\r\n \t  folded\r\n\r\n", b"GET / HTTP/1.1\n continued\n\n",
        b"GET / HTTP/1.1\r\nA: 1\r\n B: 2\r\n\tmore\r\n\r\n",
        b"POST / HTTP/1.1\r\nTransfer-Encoding: chunked\r\n\r\n1\r\na\r\n0\r\n T: v\r\n\r\n", b"POST / HTTP/1.1\r\nTransfer-Encoding: chunked\r\n\r\n0\r\n\tT: v\r\nU: w\r\n\r\n",
        b"POST / HTTP/1.1\r\nTransfer-Encoding: chunked\r\n\r\n0\r\n  \r\n\r\n",
        b"GET / HTTP/1.1\r\n: v\r\n\r\n", b"GET / HTTP/1.1\r\nContent-Type: application/json; charset=\r\nContent-Length: 1\r\n\r\n{"]
RESP_NEAR = [b"HTTP/1.1 200 OK\r\n X: 1\r\nContent-Length: 0\r\n\r\n", b"HTTP/1.1 200 OK\r\n\tfolded\r\n\r\n", b"HTTP/1.1 200 OK\n \t continued\nContent-Length: 0\n\n",
             b"HTTP/1.1 100 Continue\r\n I: 1\r\n\r\nHTTP/1.1 200 OK\r\nContent-Length: 0\r\n\r\n", b"HTTP/1.1 200 OK\r\nA: 1\r\n B: 2\r\nContent-Length: 0\r\n\r\n",
             b"HTTP/1.1 200 OK\r\nTransfer-Encoding: chunked\r\n\r\n1\r\na\r\n0\r\n T: v\r\n\r\n", b"HTTP/1.1 200 OK\r\nTransfer-Encoding: chunked\r\n\r\n0\r\n\tT: v\r\n\r\n",
             b"HTTP/1.1 {0} OK\r\n\r\n", b"{x}/1.1 200 OK\r\n\r\n", b"HTTP/{} 200 OK\r\n\r\n", b"HTTP/1.1 200 OK\r\nX{0}%s\r\n\r\n",
             b"HTTP/1.1 200 OK\r\nTransfer-Encoding: chunked\r\n\r\n{0}\r\n", b"HTTP/1.1 200 OK\r\nTransfer-Encoding: chunked\r\n\r\n1\r\na{x}\r\n",
             b"HTTP/1.1 302 F\r\nLocation: http://h:99999/{id}\r\nContent-Length: 0\r\n\r\n", b"HTTP/1.1 302 F\r\nLocation: http://[::1/{0}{}%s\r\nContent-Length: 0\r\n\r\n",
             b"HTTP/1.1 302 F\r\nLocation: /rel/{x}\r\nContent-Length: 0\r\n\r\n", b"HTTP/1.1 302 F\r\nLocation: http://{0}.invalid/\r\nContent-Length: 0\r\n\r\n",
             b"HTTP/1.1 200 OK\r\nContent-Type: application/json\r\nContent-Length: 20000\r\n\r\n" + b"[" * 20000,
             b"HTTP/1.1 200 OK\r\nA: " + b"v" * 66000 + b"\r\n\r\n", b"HTTP/1.1 200 " + b"r" * 66000 + b"\r\n\r\n",
             b"HTTP/1.1 200 OK\r\nContent-Type: text/event-stream\r\n\r\ndata: " + b"d" * 66000 + b"\n\n",
             b"HTTP/1.1 200 OK\r\nContent-Type: text/event-stream\r\nTransfer-Encoding: chunked\r\n\r\n10400\r\ndata: " + b"d" * 66554 + b"\n\n\r\n0\r\n\r\n",
             b"HTTP/1.1 302 Found\r\nContent-Length: 0\r\n\r\n", b"HTTP/1.1 302 Found\r\nLocation: http://h:999999/\r\nContent-Length: 0\r\n\r\n",
             b"HTTP/1.1 301 M\r\nLocation: http://[::1/x\r\nContent-Length: 0\r\n\r\n", b"HTTP/1.1 303 S\r\nLocation: /relative\r\nContent-Length: 0\r\n\r\n",
             b"HTTP/1.1 307 T\r\nLocation: http://h:ab/\r\nContent-Length: 0\r\n\r\n", b"HTTP/1.1 302 Found\r\nLocation: http://127.0.0.1:8080/n\r\nContent-Length: 0\r\n\r\n",
             b"HTTP/1.1 100 Continue\r\n\r\nHTTP/1.1 200 OK\r\nContent-Length: 2\r\n\r\nhi", b"HTTP/1.1 200 OK\r\nContent-Type: text/event-stream\r\n\r\ndata: \xff\n\n",
             b"HTTP/1.1 200 OK\r\nTransfer-Encoding: chunked\r\n\r\n-1\r\n", b"HTTP/1.1 200 OK\r\nX\r\n\r\n", b"HTTP/1.1 abc OK\r\n\r\n", b"HTTP/9 200 OK\r\n\r\n", b"junk\r\n\r\n",
             b"HTTP/1.1 200 OK\r\nTransfer-Encoding: chunked\r\n\r\n1;x\r\na\r\n0\r\n\r\n", b"HTTP/1.1 200 OK\r\nContent-Type: application/json\r\nContent-Length: 2\r\n\r\n\xff{",
             b"HTTP/1.1 200 OK\r\nTransfer-Encoding: chunked\r\n\r\n1\r\nab\r\n", b"HTTP/1.1 300 M\r\nLocation: http://\xe9:1/\r\nContent-Length: 0\r\n\r\n"]


class C16(core.Check):
    pid = "C16"
    pkg = "HttpParse"
    props_mod = "HioModel.Props.C16"
    design_ref = "DESIGN.md §5 C16"
    technique = ("Lean 4: the parser models in Except-style (every raising step carries its exception class, the handler of parseMessage carries its class set regenerated "
                 "from the source); totality theorems for every byte string; regenerated raise-site table with handler closure checked by decide; "
                 "differential fuzz of the real WSGI Server / BareServer / Client service loops on scripted sockets (outcome class compared); independent oracle: nothing escapes, "
                 "siblings are served as if alone")
    level_text = ("Proved for all byte strings and partitions: server_total / client_total (no reachable `escaped` phase: every exception a parsing step raises is caught by the "
                  "message parser's handler; client incl. the far side closing), step_exceptions_are_http, raise_reports_error / raise_reports_error_req (a malformed message ends as an "
                  "`err` outcome), malformed_is_local (a service cycle over any number of connections is never aborted and every connection ends where it would alone), "
                  "every_site_caught / every_redirect_site_caught (decide over the regenerated raise-site tables: each explicit raise / implicit raiser found on the parse path or in "
                  "Client.redirect is caught inside its function, by Parsent.parseMessage or by the handler around the redirect call, or is one of two audited guarded kinds), "
                  "raise_table_nontrivial; service loops as folds over the connection table (Service.lean): service_total / wsgi_service_total / bare_service_total (every table, arrival schedule of bytes "
                  "and closes, cycle count, handler list and responder behaviour: service() returns and equals the per-connection runs), siblings_unaffected (run with connection A vs without: "
                  "every other entry identical), client_service_total + redirect_classes_caught, loop_handlers_in_source (handler lists regenerated), reconnect_sites_accounted (reconnect path has "
                  "no handler; sites accounted, gap recorded).  The raise-site scan is heuristic; the correspondence fuzz (escaped class; for whole complete deliveries also answers sent and connection "
                  "kept/closed) backs it.  Socket handling, WSGI responder and BareServer steward logic are covered by the fuzz + oracle only.")
    level_note = ("Trusted: Lean kernel; translator (AST raise-site scan is a heuristic, stated); scripted sockets stand for the kernel; urllib verdicts are parameters; "
                  "name resolution in Client.redirect is scripted (IDNA encoding of the host as the runtime does it, then a fixed address).")
    quick_n = 500
    thorough_n = 14000
    rule = ("cases: (srv) 1-4 connections (interleaved arrivals: one read per connection per service cycle, one or more malformed, some closing) to the WSGI Server or the BareServer, each a pipeline of grammar-generated requests, a near-valid table entry (colon without space, "
            "parameter-syntax damage of every header the code interprets by name (list read from the source), signed / 0x / non-hex chunk size, chunk extension, bad port / IPv6, bad method / version, 101 headers, 66 kB line, non UTF-8 body) or mutated / raw random bytes, "
            "fragmented per service cycle, some closing; (cli) the Client on a response table (redirects without / with bad / relative / insecure Location, 100-continue, bad UTF-8 "
            "event, bad chunk) or generated / mutated responses; (req/resp) parser-level fuzz.  non-trivial = some bytes and at least one decision; distinct by request line")
    trusted_base = ["translator harness/extract/httpparse.py (raise sites, handlers, issubclass closure)",
                    "correspondence harness/props/C16.py: model driver vs Server / BareServer / Client on scripted sockets (outcome class)",
                    "scripted sockets (harness FakeSock) via the public servant= / connector= / cs= parameters; normalizeHost scripted"]
    assumptions = ["the WSGI application itself does not raise at call time (Responder.service catches exceptions raised while iterating it)",
                   "socket errors are out of scope here (C10)"]

    def extract(self):
        return xhp.extract()

    def corpus(self):
        cs = []
        good = b"GET /ok HTTP/1.1\r\nHost: x\r\n\r\n"
        for kind in ("wsgi", "bare"):
            for d in NEAR:
                cs.append(("srv", kind, ((d, (), False), (good, (), False))))
            for d in NEAR:
                if len(d) > 60000:      # the same delivered in two reads: the not-found branch of the line search
                    cs.append(("srv", kind, ((d, (len(d) - 3,), False),)))
            cs.append(("srv", kind, ((good + good, (10,), True), (b"GET / HTTP/1.0\r\n\r\n", (), False), (NEAR[0], (3,), True))))
        big = b"GET /big HTTP/1.1\r\n\r\n"
        for kind in ("wsgi", "bare"):      # send capacity: responses stay queued across passes; then a malformed follow-up; socket faults
            for cap in (1, 7, 50, 0):
                for bad in (NEAR[0], b"BAD / HTTP/1.1\r\n\r\n", b"GET / HTTP/1.0\r\n\r\n", b"\r\n"):
                    cs.append(("srvc", kind, ((good + bad, (len(good),), False, cap, None), (good, (), False, None, None))))
                    cs.append(("srvc", kind, ((big + bad, (len(big),), False, cap, None), (good, (), False, 3, None))))
            for fault in (("recv", 1), ("recv", 3), ("send", 1), ("send", 2), ("send", 6)):
                cs.append(("srvc", kind, ((good + b"GET / HTTP/1.0\r\n\r\n", (len(good),), False, 5, fault), (good, (), False, None, None))))
                cs.append(("srvc", kind, ((big + good, (len(big),), False, 40, fault), (good + good, (20,), False, None, None))))
        # repetition as a size dimension: k x interim response, header line, chunk, empty line, event, pipelined request
        for k in (1, 2, 10, 1000, 5000):
            cs.append(("cli", b"HTTP/1.1 100 Continue\r\n\r\n" * k + b"HTTP/1.1 200 OK\r\nContent-Length: 2\r\n\r\nhi", () if k > 10 else (30,), True, "http"))
            cs.append(("cli", b"HTTP/1.1 100 Continue\r\nX: 1\r\n\r\n" * k, (), True, "http"))
            cs.append(("cli", b"HTTP/1.1 200 OK\r\n" + b"".join(b"H%d: v\r\n" % i for i in range(k)) + b"Content-Length: 0\r\n\r\n", (), True, "http"))
            cs.append(("cli", b"HTTP/1.1 200 OK\r\n" + b"Same: v\r\n" * k + b"Content-Length: 0\r\n\r\n", (), True, "http"))
            cs.append(("cli", b"HTTP/1.1 200 OK\r\nTransfer-Encoding: chunked\r\n\r\n" + b"1\r\na\r\n" * k + b"0\r\n" + b"T: v\r\n" * min(k, 50) + b"\r\n", (), True, "http"))
            cs.append(("cli", b"\r\n" * k + b"HTTP/1.1 200 OK\r\nContent-Length: 0\r\n\r\n", (), True, "http"))
            cs.append(("cli", b"HTTP/1.1 200 OK\r\nContent-Type: text/event-stream\r\n\r\n" + b"data: x\n\n" * k + b"\n" * k, (), True, "http"))
            cs.append(("clir", b"HTTP/1.1 200 OK\r\nContent-Type: text/event-stream\r\n\r\n" + b"id: 1\ndata: x\n\n" * k, ()))
            for kind in ("wsgi", "bare"):
                cs.append(("srv", kind, ((good * min(k, 1000), (), False), (good, (), False))))
                cs.append(("srv", kind, ((b"\r\n" * k + good, (), False), (good, (), False))))
                cs.append(("srv", kind, ((b"POST / HTTP/1.1\r\nTransfer-Encoding: chunked\r\n\r\n" + b"1\r\na\r\n" * k + b"0\r\n\r\n", (), False), (good, (), False))))
                cs.append(("srv", kind, ((b"GET / HTTP/1.1\r\n" + b"Same: v\r\n" * k + b"\r\n", (), False), (good, (), False))))
        # numeric tokens beyond the int() digit limit at every place a number is read
        for nd in (4300, 4301):
            D = b"1" * nd
            for d in (b"GET / HTTP/1." + D + b"\r\n\r\n", b"GET / HTTP/" + D + b".1\r\n\r\n", b"POST / HTTP/1.1\r\nContent-Length: " + D + b"\r\n\r\n",
                      b"POST / HTTP/1.1\r\nTransfer-Encoding: chunked\r\n\r\n" + D + b"\r\n", b"GET http://h:" + D + b"/ HTTP/1.1\r\n\r\n",
                      b"GET / HTTP/1.1\r\nHost: h:" + D + b"\r\n\r\n"):
                for kind in ("wsgi", "bare"):
                    cs.append(("srv", kind, ((d, (), False), (good, (), False))))
            for d in (b"HTTP/1." + D + b" 200 OK\r\nContent-Length: 0\r\n\r\n", b"HTTP/1.1 " + D + b" OK\r\n\r\n", b"HTTP/1.1 200 OK\r\nContent-Length: " + D + b"\r\n\r\n",
                      b"HTTP/1.1 200 OK\r\nTransfer-Encoding: chunked\r\n\r\n" + D + b"\r\n", b"HTTP/1.1 302 F\r\nLocation: http://127.0.0.1:" + D + b"/\r\nContent-Length: 0\r\n\r\n",
                      b"HTTP/1.1 200 OK\r\nContent-Type: text/event-stream\r\n\r\nretry: " + D + b"\nid: 1\ndata: x\n\n"):
                cs.append(("cli", d, (), True, "http"))
            cs.append(("clir", b"HTTP/1.1 200 OK\r\nContent-Type: text/event-stream\r\n\r\nretry: " + D + b"\nid: 1\ndata: x\n\n", ()))
        # event data tried as JSON (dictable): deep nesting
        sse0 = b"HTTP/1.1 200 OK\r\nContent-Type: text/event-stream\r\n\r\n"
        for data in (b"[" * 20000, b"{\"a\":" * 4000, b"{\"a\": 1}", b"not json", b"\xff"):
            cs.append(("cli", sse0 + b"data: " + data + b"\n\n", (), True, "http+dictable"))
        for kind in ("wsgi", "bare"):      # the same server object, a second round from the same peer addresses
            r1 = ((good, (), False), (NEAR[0], (), False), (b"POST /p HTTP/1.1\r\nContent-Length: 9\r\n\r\nabc", (), False))
            r2 = ((b"GET /2 HTTP/1.1\r\n\r\n", (), False), (good + good, (30,), False), (b"GET /3 HTTP/1.0\r\n\r\n", (), False))
            cs.append(("srv2", kind, r1, r2))
            cs.append(("srv2", kind, r2, r1))
        for path in (b"/callraise", b"/iterraise", b"/httperror"):     # the application fails on one connection
            for kind in ("wsgi", "bare"):
                cs.append(("srv", kind, ((b"GET " + path + b" HTTP/1.1\r\n\r\n" + good, (), False), (good, (), False))))
        for d in RESP_NEAR:
            cs.append(("cli", d, (), True, "http"))
            cs.append(("cli", d, (5, 20), False, "http"))
        cs.append(("cli", RESP_NEAR[5], (), False, "https"))    # F49: https -> http refused
        for loc in (b"http://127.0.0.1:8080//other.example/x", b"http://127.0.0.1:8080//127.0.0.1:99999/x", b"http://a..b/x", b"http://" + b"x" * 64 + b".com/",
                    b"http://\xe9.example/x", b"http://u:p@127.0.0.1:8080/n", b"https://127.0.0.1:8443/x", b"http://127.0.0.1:8081/n", b"//127.0.0.1:8080/n",
                    b"http://127.0.0.1:8080/\xe9?\xe9=1", b"http://[::1]:8080/x", b"http://127.0.0.1:8080/%zz?a=%zz"):
            d = b"HTTP/1.1 301 M\r\nLocation: " + loc + b"\r\nContent-Length: 0\r\n\r\n"
            cs.append(("cli", d, (), False, "http"))
            cs.append(("cli", d + b"HTTP/1.1 200 OK\r\nContent-Length: 2\r\n\r\nhi", (len(d),), False, "http"))
        sse = b"HTTP/1.1 200 OK\r\nContent-Type: text/event-stream\r\n\r\n"
        for ident in ("7", "\u20ac", "\u65e5\u672c", "\U0001f600", "\xff", "a b", "\x00"):    # Last-Event-ID on reconnect
            cs.append(("clir", sse + b"id: " + ident.encode("utf-8") + b"\ndata: x\n\n", ()))
        cs.append(("clir", b"HTTP/1.1 200 OK\r\nContent-Length: 2\r\n\r\nhi", ()))
        long_ev = sse + b"data: " + b"d" * 66000 + b"\n\n"
        for nxt in (b"HTTP/1.1 200 OK\r\nContent-Length: 2\r\n\r\nhi", b"HTTP/1.1 200 OK\r\n\r\nrest", b"HTTP/1.1 200 OK\r\nTransfer-Encoding: chunked\r\n\r\n2\r\nhi\r\n0\r\n\r\n"):
            cs.append(("cli", long_ev + nxt, (len(long_ev),), True, "http"))     # a failed event stream, then a response without Content-Type
            cs.append(("clir", long_ev + nxt, (len(long_ev),)))
        for digits in (308, 309, 400, 4300, 4301):      # retry too large for a float on reconnect
            cs.append(("clir", sse + b"retry: " + b"9" * digits + b"\nid: 1\ndata: x\n\n", ()))
        for host in (b"gone.invalid", b"nxdomain.example"):      # Location host that does not resolve
            cs.append(("cli", b"HTTP/1.1 302 F\r\nLocation: http://" + host + b"/x\r\nContent-Length: 0\r\n\r\n", (), False, "http"))
        import random
        r17 = random.Random(1617)
        for nm in hp.interpreted_headers():              # parameter-syntax damage of every header the code interprets
            for val in (b"text/plain;", b"text/html; charset=utf-8;", b";;", b"charset", b"a=b; c", b"", b"x; =y", b"\"q", hp.damage_header_value(r17, nm)):
                line = nm.title().encode() + b": " + val + b"\r\n"
                for kind in ("wsgi", "bare"):
                    cs.append(("srv", kind, ((b"POST /p HTTP/1.1\r\n" + line + b"Content-Length: 2\r\n\r\nhi", (), False), (good, (), False))))
                cs.append(("cli", b"HTTP/1.1 200 OK\r\n" + line + b"Content-Length: 2\r\n\r\nhi", (), True, "http"))
        cs.append(("clir", sse + b"id: \xff\xfe\ndata: x\n\nretry: 5\n\n", (40,)))
        return cs

    def _conn(self, rng):
        k = rng.random()
        if k < 0.35:
            d = b"".join(hp.gen_request(rng) for _ in range(rng.choice([1, 1, 2, 3])))
        elif k < 0.6:
            d = rng.choice(NEAR)
            if rng.random() < 0.4:
                d = hp.gen_request(rng) + d
        elif k < 0.9:
            d = hp.mutate_bytes(rng, b"".join(hp.gen_request(rng) for _ in range(rng.choice([1, 2]))))
        else:
            d = bytes(rng.randrange(256) for _ in range(rng.randrange(0, 40)))
        if len(d) > 3000:
            cuts = hp.cuts_for(rng, d, rng.choice(["none", "two", "uniform"]))
        else:
            cuts = hp.cuts_for(rng, d, rng.choice(["none", "two", "uniform", "term", "ones"]) if len(d) < 200 else rng.choice(["none", "two", "uniform", "term"]))
        return (d, cuts, rng.random() < 0.3)

    def generate(self, rng, n, tier):
        for _ in range(n):
            k = rng.random()
            if k < 0.12 and k >= 0.06:      # send capacity and socket faults, pipelines with malformed follow-ups
                conns = []
                for _ in range(rng.choice([1, 2, 2, 3])):
                    d, cuts, cl = self._conn(rng)
                    if rng.random() < 0.5:
                        d = rng.choice([b"GET /big HTTP/1.1\r\n\r\n", hp.gen_request(rng)]) + d
                        cuts = hp.cuts_for(rng, d, rng.choice(["two", "uniform", "term"])) if len(d) < 3000 else ()
                    cap = rng.choice([None, 0, 1, 3, 7, 20, 50, 200])
                    fault = None if rng.random() < 0.6 else (rng.choice(["recv", "send"]), rng.randrange(1, 9))
                    conns.append((d, cuts, cl, cap, fault))
                yield ("srvc", rng.choice(["wsgi", "bare"]), tuple(conns))
            elif k < 0.06:
                yield ("srv2", rng.choice(["wsgi", "bare"]), tuple(self._conn(rng) for _ in range(rng.choice([1, 2, 3]))),
                       tuple(self._conn(rng) for _ in range(rng.choice([1, 2, 3]))))
            elif k < 0.5:
                yield ("srv", rng.choice(["wsgi", "bare"]), tuple(self._conn(rng) for _ in range(rng.choice([1, 2, 2, 3, 3, 4]))))
            elif k < 0.75:
                m = rng.random()
                if m < 0.35:        # redirect with a Location from the URL grammar; sometimes the redirected exchange goes on
                    d = hp.gen_redirect(rng)
                    if rng.random() < 0.4:
                        d2, _ = hp.gen_response(rng) if rng.random() < 0.6 else (hp.gen_redirect(rng), False)
                        yield ("cli", d + d2, (len(d),), rng.random() < 0.3, "https" if rng.random() < 0.15 else "http")
                        continue
                    yield ("cli", d, hp.cuts_for(rng, d, rng.choice(["none", "two"])), rng.random() < 0.3, "https" if rng.random() < 0.15 else "http")
                    continue
                if m < 0.5:         # event stream, far side closes, client reconnects and re-requests with Last-Event-ID
                    d, _ = hp.gen_response(rng, sse=hp.gen_sse_stream(rng, invalid_utf8=rng.random() < 0.3))
                    yield ("clir", d, hp.cuts_for(rng, d, rng.choice(["none", "two", "uniform", "term"])))
                    continue
                if m < 0.6:
                    d = rng.choice(RESP_NEAR)
                elif m < 0.7:
                    d, _ = hp.gen_response(rng, sse=hp.gen_sse_stream(rng, invalid_utf8=True) if rng.random() < 0.3 else None)
                else:
                    d, _ = hp.gen_response(rng)
                    d = hp.mutate_bytes(rng, d)
                yield ("cli", d, hp.cuts_for(rng, d, rng.choice(["none", "two", "uniform", "term"])), rng.random() < 0.5, "https" if rng.random() < 0.1 else "http")
            elif k < 0.9:
                d = hp.mutate_bytes(rng, b"".join(hp.gen_request(rng) for _ in range(rng.choice([1, 2]))), k=rng.randrange(1, 6))
                yield ("req", d, hp.cuts_for(rng, d), None)
            else:
                d, closed = hp.gen_response(rng)
                d = hp.mutate_bytes(rng, d, k=rng.randrange(1, 6))
                yield ("resp", False, d, hp.cuts_for(rng, d), True, None)

    def request(self, case):
        return hp.request_of(case)

    def run_impl(self, case):
        return hp.run_case(case)

    def compare_view(self, case, obs):
        return sx.dumps(hp.view_of(case, obs))

    @hp.total
    def oracle(self, case, obs):
        bad = []
        k = case[0]
        if k == "srv2":
            second, fresh = obs
            if second[0] is not None or fresh[0] is not None:
                bad.append("exception-escaped-server-service")
            elif second[1] != fresh[1]:
                bad.append("reused-server-differs-from-fresh")      # state of the first round leaked into the second
            return bad
        if k in ("srv", "srvc"):
            multi, alone = obs
            if multi[0] is not None:
                bad.append("exception-escaped-server-service")
            for a in alone:
                if a[0] is not None and "exception-escaped-server-service" not in bad:
                    bad.append("exception-escaped-server-service")
            if multi[0] is None and all(a[0] is None for a in alone):
                for i, a in enumerate(alone):
                    if a[1][0] != multi[1][i]:
                        bad.append("sibling-not-served-as-alone")
                        break
        elif k in ("cli", "clir"):
            esc, resps, nev = obs[0]
            if esc is not None:
                bad.append("exception-escaped-client-service")
        else:
            if hp.has_escape(obs):
                bad.append("exception-escaped-parser")
        return bad

    @hp.safe(True)
    def nontrivial(self, case, obs):
        if case[0] in ("srv2", "srvc"):
            return True
        if case[0] == "srv":
            return any(len(d) > 0 for d, _, _ in case[2])
        return len(hp.case_data(case)) > 0

    @hp.safe(list)
    def features(self, case, obs):
        f = [case[0] + (":" + case[1] if case[0] in ("srv", "srv2", "srvc") else "")]
        if case[0] == "srv2":
            return f
        if case[0] == "srvc":
            for c in case[2]:
                f.append("srvc:cap:" + ("none" if c[3] is None else "0" if c[3] == 0 else "small" if c[3] < 10 else "large"))
                if c[4]:
                    f.append("srvc:fault:" + c[4][0])
            return f
        if case[0] == "srv":
            multi = obs[0]
            f.append(f"conns:{len(case[2])}")
            for n, o in multi[1]:
                f.append(f"conn:{'answered' if n else 'silent'}:{'open' if o else 'closed'}")
        elif case[0] in ("cli", "clir"):
            esc, resps, nev = obs[0]
            if case[0] == "clir":
                f.append("cli:reconnect")
            if b"ocation" in case[1]:
                f.append("cli:location")
            for st, er in resps:
                f.append(f"cli:resp:{'errored' if er else 'ok'}:{st // 100 if st else 0}xx")
            if not resps:
                f.append("cli:no-response" + (":events" if nev else ""))
        else:
            for m in obs[0][0]:
                f.append("msg:" + m[0] + (":" + m[1] if m[0] == "err" else ""))
        return f

    def shrink(self, case):
        return hp.shrink_case(case)

    @hp.safe(list)
    def mutate(self, rng, case):
        return list(hp.shrink_case(case))[:30]


CHECK = C16()
