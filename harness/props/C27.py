"""C27 — hio.help.naming.Namer: name->addr and addr->name stay exact inverses; rejected / no-change ops change nothing."""
import itertools

from .. import core, sx

NAMES = ["na", "nb", "nc"]
ADDRS = ["ax", "ay", "az"]
TUPLE_ADDRS = [("t", "h", 1), ("t", "h", 2), ("t", "g", 1)]          # (host, port) tuples
FALSY = [None, "", 0, ("t",), ("l",), ("d",)]                          # None, '', 0, (), [], {}
UNHASHABLE = [("l", "h", 1), ("d", "h", 1)]                            # ["h", 1] as json.loads gives it, {"h": 1}
BOOL_OPS = ("add", "rem", "chga", "chgn")

# A key in a case is a plain literal: None | str | int | ("t", item..) tuple | ("l", item..) list | ("d"[, k, v]) dict.
# The adapter BUILDS A FRESH OBJECT from it for every single call (strings via join, tuples/lists/dicts from parts), so that
# an argument is equal to, but never the same object as, what an earlier call stored.


class _Obs(tuple):
    """stage observations (what the model predicts) + what happened to the bystander instances (oracle only)"""
    by = ()


def _un(v):
    """("same", key) asks the adapter to pass the very object the registry already holds, when it holds an equal one"""
    return v[1] if isinstance(v, tuple) and v[:1] == ("same",) else v


def _mk(v):
    v = _un(v)
    if v is None or isinstance(v, int):
        return v
    if isinstance(v, str):
        return "".join(list(v))              # a new str object for len >= 2 (one-character strings are interned by CPython)
    kind, items = v[0], [_mk(x) for x in v[1:]]
    if kind == "b":
        return bytes(bytearray(v[1].encode("latin-1")))      # a bytes key (b"ax" != "ax")
    if kind == "t":
        return tuple(items)
    if kind == "l":
        return list(items)
    return {items[0]: items[1]} if items else {}


def _valid(v):
    """accepted as a name / address: truthy and hashable"""
    v = _un(v)
    if v is None or v == "" or v == 0:
        return False
    if isinstance(v, tuple):
        return v[0] in ("t", "b") and len(v) > 1 and v[1] != ""
    return True


def _part(x):
    return (b"i" + str(x).encode()) if isinstance(x, int) else (b"s" + x.encode("utf-8", "surrogatepass"))


def _k(v):
    """case key -> wire value (k KIND #part ...)"""
    v = _un(v)
    if v is None:
        return ("k", 0)
    if isinstance(v, str):
        return ("k", 1, v.encode("utf-8", "surrogatepass"))
    if isinstance(v, int):
        return ("k", 4, str(v).encode())
    if v[0] == "b":
        return ("k", 6, v[1].encode("latin-1"))
    return ("k", {"t": 2, "l": 3, "d": 5}[v[0]]) + tuple(_part(x) for x in v[1:])


def _wire_obj(o):
    """real object (as found in the real dicts / returned) -> wire value"""
    if o is None:
        return ("k", 0)
    if isinstance(o, str):
        return ("k", 1, o.encode("utf-8", "surrogatepass"))
    if isinstance(o, (bytes, bytearray)):
        return ("k", 6, bytes(o))
    if isinstance(o, bool):
        return ("k", 9, str(o).encode())
    if isinstance(o, int):
        return ("k", 4, str(o).encode())
    if isinstance(o, tuple):
        return ("k", 2) + tuple(_part(x) for x in o)
    if isinstance(o, list):
        return ("k", 3) + tuple(_part(x) for x in o)
    if isinstance(o, dict):
        return ("k", 5) + tuple(_part(x) for kv in o.items() for x in kv)
    return ("k", 8, type(o).__name__.encode())


def _items(d):
    return tuple(sorted(((_wire_obj(a), _wire_obj(b)) for a, b in d.items()), key=lambda kv: (kv[0][1], kv[0][2:])))


def _pairs(case):
    """effective (name, addr) pairs the constructor iterates (dict semantics are Python's, not hio's)"""
    mode, pairs = case[0], case[1]
    if mode == "none":
        return []
    if mode == "crewer":
        return [tuple(p) for p in pairs]
    if mode == "dict":
        return [tuple(p) for p in dict((n, a) for n, a in pairs).items()]
    return [tuple(p) for p in pairs]


class C27(core.Check):
    pid = "C27"
    pkg = "Namer"
    props_mod = "HioModel.Props.C27"
    design_ref = "DESIGN.md §5 C27"
    technique = ("Lean 4 invariant proof (induction over arbitrary operation histories) on an executable model of Namer "
                 "+ differential run of the compiled model against hio.help.naming.Namer + independent inverse/unchanged oracle on the real dicts")
    level_text = ("Lean theorems for every key type with decidable equality, every truthiness predicate and every history (unbounded): inverse_init, inverse_step "
                  "(every public op incl. constructor entries, clear, getters), inverse_history (induction over the op list, also after a constructor that raised part-way), "
                  "no_two_names_share_address / no_two_addresses_share_name, rejected_or_nochange_is_identity (ANY exception — NamerError, TypeError for an unhashable argument — or a False result => state literally unchanged), "
                  "unhashable_argument_never_accepted (argument kinds valid / empty / unhashable: hashability is a parameter of the model like truthiness), "
                  "never_keyerror (the `del` statements never raise under the invariant), keys_unique_history (dict well-formedness of the model state), "
                  "plus functional specs of the four mutators. Nothing is _partial. The hand-written model is tied to the code by the differential run "
                  "(thorough: every reachable state over 3 names x 3 addresses x every op with None/'' arguments, all histories of length <= 3 over 2x2+None).")
    level_note = ("Trusted: Lean kernel + propext/Classical.choice/Quot.sound; Python dict modelled as association list with unique keys; "
                  "keys are str or None in the correspondence (model is polymorphic); representativeness of the sampled correspondence.")
    quick_n = 6000
    thorough_n = 100000
    rule = ("case = (entries mode none|list|dict, constructor pairs, op list); ops add/rem/chga/chgn/clear/geta/getn/count over str names, str and (host, port) tuple addresses, and in every argument position "
            "None, '', 0, (), [], {}, an unhashable [host, port] list and a dict; every argument of every call is a FRESHLY BUILT object (equal to, never identical with, what is stored); any exception class is recorded "
            "(biased to conflicts: re-add, rename onto existing, change to same value, remove with mismatching pair); "
            "non-trivial = at least one op executed on a state with >= 1 entry and at least one rejected/no-change result and one successful mutation; distinct by request line")
    trusted_base = ["correspondence harness/props/C27.py: compiled model driver vs hio.help.naming.Namer, state compared after every op",
                    "modelled: Python dict as association list (lookup/insert/delete, KeyError on deleting a missing key), truthiness of str/None"]
    assumptions = ["CPython dict get/set/del/in behave as association-list lookup/insert/erase on hashable str keys"]

    # ---------------------------------------------------------------- cases
    def corpus(self):
        return [
            ("none", [], []),
            ("list", [("na", "ax"), ("nb", "ay")], [("add", "na", "ax"), ("add", "na", "ay"), ("add", "nc", "ax"), ("add", "nc", "az")]),
            ("list", [("na", "ax"), ("nb", "ax")], []),                      # constructor raises half-way
            ("dict", [("na", "ax"), ("na", "ay"), ("nb", "az")], [("count",)]),
            ("list", [("na", "ax"), ("nb", "ay")], [("chga", "na", "ay"), ("chga", "na", "ax"), ("chga", "na", "az"), ("chga", "nc", "ax"), ("geta", "na"), ("getn", "ax")]),
            ("list", [("na", "ax"), ("nb", "ay")], [("chgn", "ax", "nb"), ("chgn", "ax", "na"), ("chgn", "ax", "nc"), ("chgn", "az", "na"), ("getn", "ax"), ("geta", "na")]),
            ("list", [("na", "ax"), ("nb", "ay")], [("rem", "na", "ay"), ("rem", None, "ax"), ("rem", "nb", None), ("rem", "nb", "ay"), ("rem", None, None)]),
            ("list", [("na", "ax"), ("nb", "ay")], [("rem", "", "ay"), ("rem", "na", ""), ("rem", "", "")]),
            ("list", [("na", "ax")], [("add", None, "ay"), ("add", "nb", ""), ("chga", "na", None), ("chgn", "ax", ""), ("chga", None, "ay"), ("chgn", None, "nb")]),
            ("list", [("na", "ax"), ("nb", "ay"), ("nc", "az")], [("clear",), ("count",), ("add", "na", "az"), ("rem", "na", "ax"), ("rem", "nc", "az")]),
            ("list", [("na", "ax")], [("chga", "na", "ay"), ("add", "nb", "ax"), ("chgn", "ax", "na"), ("chgn", "ay", "nb"), ("rem", None, "ay"), ("add", "na", "ay")]),
            # equal but not identical arguments (every call gets freshly built objects), tuple addresses
            ("none", [], [("add", "na", ("t", "h", 1)), ("chga", "na", ("t", "h", 1)), ("getn", ("t", "h", 1)), ("add", "na", ("t", "h", 1)), ("chgn", ("t", "h", 1), "na"),
                          ("rem", "na", ("t", "h", 1)), ("count",)]),
            ("list", [("na", "ax")], [("chga", "na", "ax"), ("getn", "ax"), ("chgn", "ax", "na"), ("geta", "na"), ("add", "na", "ax")]),
            # unhashable / otherwise rejected arguments in every position
            ("list", [("na", "ax")], [("add", "nb", ("l", "h", 1)), ("add", ("l", "h", 1), "ay"), ("add", "nb", ("d", "h", 1)), ("add", "nb", ("l",)), ("add", "nb", 0),
                                      ("rem", "na", ("l", "h", 1)), ("rem", ("l", "h", 1), "ax"), ("rem", None, ("l", "h", 1)), ("rem", ("l",), ("d",)),
                                      ("chga", "na", ("l", "h", 1)), ("chga", ("l", "h", 1), "ay"), ("chga", "nb", ("l", "h", 1)),
                                      ("chgn", "ax", ("l", "h", 1)), ("chgn", ("l", "h", 1), "nb"), ("chgn", "ay", ("d", "h", 1)),
                                      ("geta", ("l", "h", 1)), ("getn", ("d", "h", 1)), ("geta", 0), ("count",)]),
            ("list", [("na", ("l", "h", 1))], []),
            # a Namer subclass (multidoing.Crewer) fed whole address books: first book, the same again, a hand MOVED to a new address,
            # an address RE-USED for another name, an empty / unhashable entry, its own name (skipped)
            ("crewer", [("boss", "/b")], [("bok", [("hand0", "/h0"), ("hand1", "/h1"), ("hand2", "/h2")]), ("bok", [("hand0", "/h0"), ("hand1", "/h1"), ("hand2", "/h2")]),
                                           ("bok", [("hand1", "/h1"), ("hand2", "/moved")]), ("bok", [("hand3", "/h1")]), ("bok", [("hand3", "/h3"), ("hand4", "")]),
                                           ("bok", [("hand5", ("l", "h", 1))]), ("bok", [("", "/e")]), ("bok", []), ("count",), ("geta", "hand2"), ("getn", "/h1")]),
            ("crewer", [], [("bok", [("hand1", "/h1")]), ("rem", "hand1", None), ("bok", [("hand1", "/h9"), ("hand2", "/h1")]), ("chga", "hand1", "/h1"), ("bok", [("hand2", "/h9")])]),
            ("list", [("na", "ax"), (("l", "h", 1), "ay")], []),
        ]

    def _all_ops(self, names, addrs, falsy):
        ns = list(names) + list(falsy)
        as_ = list(addrs) + list(falsy)
        ops = []
        for n in ns:
            for a in as_:
                ops += [("add", n, a), ("rem", n, a), ("chga", n, a), ("chgn", a, n)]
        return ops

    def exhaustive(self, tier):
        if tier != "thorough":
            return [], None
        cases = []
        # every reachable state (partial bijection over 3x3) x every op (incl. None / '' arguments)
        for k in range(0, 4):
            for ns in itertools.combinations(NAMES, k):
                for as_ in itertools.permutations(ADDRS, k):
                    path = [("add", n, a) for n, a in zip(ns, as_)]
                    for op in self._all_ops(NAMES, ADDRS, FALSY + UNHASHABLE) + [("clear",), ("count",)] + \
                            [("geta", n) for n in NAMES + FALSY + UNHASHABLE] + [("getn", a) for a in ADDRS + FALSY + UNHASHABLE]:
                        cases.append(("none", [], path + [op]))
        # all histories of length <= 3 over 2 names x 2 addresses + None
        small = self._all_ops(NAMES[:2], ADDRS[:2], [None])
        for ln in range(1, 4):
            for h in itertools.product(small, repeat=ln):
                cases.append(("none", [], list(h)))
        small2 = self._all_ops(NAMES[:2], [ADDRS[0], TUPLE_ADDRS[0]], [None, UNHASHABLE[0]])
        for h in itertools.product(small2, repeat=2):
            cases.append(("none", [], list(h)))
        return cases, ("every reachable state over names a,b,c x addresses x,y,z (34 states, reached by a shortest history) x every op with every argument in "
                       "{names, None, '', 0, (), [], {}, ['h',1], {'h':1}} x {addresses, the same}; all histories of length <= 3 over 2 names x 2 addresses + None (36 ops); "
                       "all histories of length 2 over 2 names x {str, tuple} addresses + None + an unhashable list (64 ops)")

    def _key(self, rng, pool, pf=0.08):
        r = rng.random()
        if r < pf:
            return rng.choice(FALSY + UNHASHABLE + UNHASHABLE + [("b", "")])
        return rng.choice(pool)

    def _op(self, rng, names, addrs, state):
        """state: python dict name->addr of what a correct Namer would hold (only to bias toward conflicts)"""
        r = rng.random()
        n = self._key(rng, names)
        a = self._key(rng, addrs)
        if state and rng.random() < 0.5:      # aim at existing entries
            en, ea = rng.choice(sorted(state.items(), key=repr))
            m = rng.random()
            if m < 0.35:
                n = en
            elif m < 0.7:
                a = ea
            else:
                n, a = en, ea
        if r < 0.30:
            return ("add", n, a)
        if r < 0.52:
            m = rng.random()
            if m < 0.3:
                return ("rem", n, rng.choice(FALSY))
            if m < 0.6:
                return ("rem", rng.choice(FALSY), a)
            return ("rem", n, a)
        if r < 0.70:
            return ("chga", n, a)
        if r < 0.88:
            return ("chgn", a, n)
        if r < 0.90:
            return ("clear",)
        if r < 0.94:
            return ("geta", n)
        if r < 0.98:
            return ("getn", a)
        return ("count",)

    @staticmethod
    def _shadow(state, op):
        """reference semantics only used to steer generation"""
        inv = {a: n for n, a in state.items()}
        k = op[0]
        if k == "add":
            _, n, a = op
            if _valid(n) and _valid(a) and n not in state and a not in inv:
                state[n] = a
        elif k == "rem":
            _, n, a = op
            if _valid(n):
                if n in state and (not _valid(a) and a in FALSY or state[n] == a):
                    del state[n]
            elif n in FALSY and _valid(a) and a in inv:
                del state[inv[a]]
        elif k == "chga":
            _, n, a = op
            if _valid(n) and _valid(a) and n in state and a not in inv:
                state[n] = a
        elif k == "chgn":
            _, a, n = op
            if _valid(n) and _valid(a) and a in inv and n not in state:
                del state[inv[a]]
                state[n] = a
        elif k == "clear":
            state.clear()

    def generate(self, rng, n, tier):
        for _ in range(n):
            nn = rng.choice([1, 2, 2, 3, 3, 3, 5])
            na = rng.choice([1, 2, 2, 3, 3, 3, 5])
            names = (NAMES + ["dd", "éé", "n\udc80", 7])[:nn] if rng.random() < 0.8 else rng.sample(NAMES + ["n\udc80", 7, ("b", "na"), ("t", "na")], min(nn, 5))
            addrs = rng.sample(ADDRS + TUPLE_ADDRS + ["na", ("b", "ax"), 7, "ÿ\x80"], min(na, 7))      # "na" is also a name: names and addresses may collide
            mode = rng.choice(["none", "none", "list", "list", "dict", "crewer", "crewer"])
            pairs = []
            if mode != "none":
                for _ in range(rng.randrange(0, 5)):
                    nm = self._key(rng, names, 0.08)
                    if mode == "dict" and not (nm is None or isinstance(nm, (str, int)) or nm[0] in ("t", "b")):
                        nm = rng.choice(names)           # a dict cannot even be built with an unhashable key
                    pairs.append((nm, self._key(rng, addrs, 0.08)))
            state = {}
            case0 = (mode, pairs, [])
            ok = True
            for p in _pairs(case0):
                before = dict(state)
                self._shadow(state, ("add",) + p)
                if state == before and not (p[0] in state and state.get(p[0]) == p[1]):
                    ok = False
                    break
            ops = []
            if ok or rng.random() < 0.3:
                for _ in range(rng.choice([1, 2, 3, 4, 6, 8, 12, 20])):
                    op = self._op(rng, names, addrs, state)
                    self._shadow(state, op)
                    if mode == "crewer" and rng.random() < 0.4:
                        # a whole book: JSON-native names (str) and addresses, mostly valid, conflicts with what is registered likely
                        jn = [x for x in names if isinstance(x, str) and "\udc80" not in x] + ["hand0", ""]      # (a memo is JSON text: no lone surrogates)
                        ja = [x for x in addrs if isinstance(x, str)] + ["/h1", "/h2", "", None, 0, ("l", "h", 1), ("d", "h", 1)]
                        op = ("bok", [(rng.choice(jn), rng.choice(ja[:max(2, len(ja) - 5)] if rng.random() < 0.8 else ja)) for _ in range(rng.choice([0, 1, 2, 2, 3, 4]))])
                        for n_, a_ in dict((n, a) for n, a in op[1]).items():
                            if n_ != "hand0":
                                self._shadow(state, ("add", n_, a_))
                        ops.append(op)
                        continue
                    if len(op) == 3 and rng.random() < 0.3:
                        # pass the identical stored object instead of an equal fresh one, per argument
                        op = (op[0],) + tuple(("same", x) if rng.random() < 0.6 else x for x in op[1:])
                    ops.append(op)
            yield (mode, pairs, ops)

    # ---------------------------------------------------------------- wire
    def request(self, case):
        ops = []
        for op in case[2]:
            if op[0] == "bok":
                # a whole address book sent to a Crewer (self name "hand0"): the entries a JSON object carries, in order
                ops.append(("bok", _k("hand0"), [(_k(n), _k(a)) for n, a in dict((n, a) for n, a in op[1]).items()]))
            else:
                ops.append((op[0],) + tuple(_k(x) for x in op[1:]))
        return ("namer", [(_k(n), _k(a)) for n, a in _pairs(case)], ops)

    # ---------------------------------------------------------------- implementation
    def run_impl(self, case):
        from hio.help import naming
        mode, pairs, ops = case

        def classify(ex):
            # ANY exception is a rejection; its class is part of the observation (the model predicts NamerError / TypeError)
            return ("raise", type(ex).__name__)

        # every argument of every call is a freshly built object: equal to, never identical with, what is stored
        if mode in ("none", "crewer"):
            entries = None
        elif mode == "dict":
            entries = {_mk(n): _mk(a) for n, a in _pairs(case)}
        else:
            entries = [(_mk(n), _mk(a)) for n, a in pairs]
        try:
            bystander = naming.Namer(entries=[("zz", "zzz")])    # another instance, made before: must never be touched
            bystander.addrByName
        except Exception as ex:
            return _Obs((("raise", "Bystander:" + type(ex).__name__),))
        try:
            if mode == "crewer":
                # a Namer SUBCLASS from the library, not opened (no socket): driven through its own entry point for books
                import logging
                from hio.base import multidoing
                boss = multidoing.Bossage(name="boss", path="/nowhere/boss.uxd")
                nm = multidoing.Crewer(name="hand0", boss=boss)
                nm.logger = logging.getLogger("verif.C27.crewer")
                nm.logger.addHandler(logging.NullHandler())
                nm.logger.propagate = False
                for n_, a_ in pairs:
                    nm.addNameAddr(name=_mk(n_), addr=_mk(a_))
            else:
                nm = naming.Namer(entries=entries)
            nm.addrByName, nm.nameByAddr
        except Exception as ex:
            return _Obs((classify(ex),))
        later = naming.Namer()                                    # and one made after: must start and stay empty

        def observe():
            # the properties hand out copies: whatever the caller does to them must not reach the registry
            c1, c2 = nm.addrByName, nm.nameByAddr
            c1["junk-name"] = "junk-addr"
            c2.clear()
            return _items(nm.addrByName), _items(nm.nameByAddr)

        def arg(v):
            o = _mk(v)
            if isinstance(v, tuple) and v[:1] == ("same",):
                try:
                    for held in list(nm.addrByName) + list(nm.nameByAddr):
                        if type(held) is type(o) and held == o:
                            return held
                except Exception:
                    pass
            return o

        out = [("ok",) + observe()]
        for op in ops:
            k = op[0]
            args = [arg(x) for x in op[1:]] if k != "bok" else []
            try:
                if k == "bok":
                    from hio.base import multidoing
                    load = {_mk(n_): _mk(a_) for n_, a_ in op[1]}
                    memo = multidoing.BokDom(name="boss", load=load)._asjson().decode()
                    nm.rxms.clear()
                    nm.rxms.append((memo, "/nowhere/boss.uxd", None))
                    try:
                        r = nm.serviceRxMemos()
                    finally:
                        nm.rxms.clear()
                    r = None
                elif k == "add":
                    r = nm.addNameAddr(name=args[0], addr=args[1])
                elif k == "rem":
                    r = nm.remNameAddr(name=args[0], addr=args[1])
                elif k == "chga":
                    r = nm.changeAddrAtName(name=args[0], addr=args[1])
                elif k == "chgn":
                    r = nm.changeNameAtAddr(addr=args[0], name=args[1])
                elif k == "clear":
                    r = nm.clearAllNameAddr()
                elif k == "geta":
                    r = _wire_obj(nm.getAddr(args[0]))
                elif k == "getn":
                    r = _wire_obj(nm.getName(args[0]))
                elif k == "count":
                    r = nm.countNameAddr
                else:
                    raise core.Infra(f"bad op {op!r}")
                if not (r is None or isinstance(r, (bool, int, tuple))):
                    r = _wire_obj(r)
                res = ("ok", r)
            except core.Infra:
                raise
            except Exception as ex:
                res = classify(ex)
            out.append((res,) + observe())
        obs = _Obs(out)
        obs.by = (_items(bystander.addrByName), _items(bystander.nameByAddr), _items(later.addrByName), _items(later.nameByAddr))
        return obs

    # ---------------------------------------------------------------- oracle (property text, real dicts only)
    def oracle(self, case, obs):
        bad = []
        if obs[0][0] == "raise":
            # the constructor may reject its entries (NamerError, TypeError for an unhashable one): no object to speak about;
            # anything else out of a constructor is not a rejection of the input
            return [] if obs[0][1] in ("NamerError", "TypeError") else ["constructor-failed-" + obs[0][1]]
        zz = ((("k", 1, b"zz"), ("k", 1, b"zzz")),)
        if getattr(obs, "by", None) and obs.by != (zz, ((("k", 1, b"zzz"), ("k", 1, b"zz")),), (), ()):
            bad.append("another-instance-changed")
        prev = None
        for i, st in enumerate(obs):
            if i == 0:
                res, n2a, a2n = None, st[1], st[2]
            else:
                res, n2a, a2n = st
            dn, da = dict(n2a), dict(a2n)
            if any(da.get(a) != n for n, a in dn.items()) or any(dn.get(n) != a for a, n in da.items()) or len(dn) != len(da):
                bad.append("not-inverse")
            if len(set(dn.values())) != len(dn):
                bad.append("two-names-share-address")
            if res is not None:
                op = case[2][i - 1]
                rejected = res[0] == "raise" and op[0] != "bok"      # a book is applied entry by entry: the ones before the rejected entry stay
                nochange = op[0] in BOOL_OPS and res == ("ok", False)
                query = op[0] in ("geta", "getn", "count")
                if (rejected or nochange or query) and (n2a, a2n) != prev:
                    bad.append("rejected-or-nochange-op-changed-state" if not query else "query-changed-state")
            prev = (n2a, a2n)
        return sorted(set(bad))

    def nontrivial(self, case, obs):
        if obs[0][0] == "raise":
            return False
        seen_rej = seen_mut = seen_nonempty = False
        prev = (obs[0][1], obs[0][2])
        for st in obs[1:]:
            if prev[0]:
                seen_nonempty = True
            if st[0][0] == "raise" or st[0] == ("ok", False):
                seen_rej = True
            if (st[1], st[2]) != prev:
                seen_mut = True
            prev = (st[1], st[2])
        return seen_rej and seen_mut and seen_nonempty

    def features(self, case, obs):
        f = [f"entries:{case[0]}", f"len:{min(len(case[2]), 20) // 4 * 4}+"]
        if obs[0][0] == "raise":
            f.append("init:raise")
            return f
        for op, st in zip(case[2], obs[1:]):
            r = st[0]
            tag = r[1] if r[0] == "raise" else ("True" if r[1] is True else "False" if r[1] is False else "value")
            f.append(f"{op[0]}:{tag}")
            if op[0] == "bok":
                f.append(f"bok:entries{min(len(op[1]), 4)}")
                continue
            if any(isinstance(x, tuple) and x[:1] == ("same",) for x in op[1:]):
                f.append(f"{op[0]}:identical-arg")
            if any(x in FALSY for x in op[1:]):
                f.append(f"{op[0]}:falsy-arg")
            if any(x in UNHASHABLE for x in op[1:]):
                f.append(f"{op[0]}:unhashable-arg")
            if any(isinstance(x, tuple) and x[:1] == ("t",) and len(x) > 1 for x in op[1:]):
                f.append(f"{op[0]}:tuple-arg")
        return f

    def shrink(self, case):
        mode, pairs, ops = case
        for i in range(len(ops)):
            yield (mode, pairs, ops[:i] + ops[i + 1:])
        for i in range(len(pairs)):
            yield (mode, pairs[:i] + pairs[i + 1:], ops)
        if mode != "none" and not pairs:
            yield ("none", [], ops)
        if mode == "dict":
            yield ("list", pairs, ops)

    def mutate(self, rng, case):
        mode, pairs, ops = case
        out = list(self.shrink(case))
        every = self._all_ops(NAMES, ADDRS + TUPLE_ADDRS[:1], [None, UNHASHABLE[0]])
        for _ in range(40):
            out.append((mode, pairs, list(ops) + [rng.choice(every)]))
            if ops:
                i = rng.randrange(len(ops))
                out.append((mode, pairs, ops[:i] + [rng.choice(every)] + ops[i:]))
        return out


CHECK = C27()
