"""C27 — hio.help.naming.Namer: name->addr and addr->name stay exact inverses; rejected / no-change ops change nothing."""
import itertools

from .. import core, sx

NAMES = ["a", "b", "c"]
ADDRS = ["x", "y", "z"]
FALSY = [None, ""]
BOOL_OPS = ("add", "rem", "chga", "chgn")


def _k(v):
    """key (None | str) -> wire value"""
    return None if v is None else v.encode("utf-8")


def _items(d):
    return tuple(sorted((_k(a), _k(b)) for a, b in d.items()))


def _pairs(case):
    """effective (name, addr) pairs the constructor iterates (dict semantics are Python's, not hio's)"""
    mode, pairs = case[0], case[1]
    if mode == "none":
        return []
    if mode == "dict":
        return [tuple(p) for p in dict((n, a) for n, a in pairs).items()]
    return [tuple(p) for p in pairs]


class C27(core.Check):
    pid = "C27"
    pkg = "Namer"
    props_mod = "HioModel.Props.C27"
    design_ref = "DESIGN.md §5 C27"
    technique = ("Lean 4 invariant proof (induction over arbitrary operation histories) on an executable model of Namer "
                 "+ differential run of the compiled model against hio.help.naming.Namer + independent inverse/unchanged oracle on the real dicts")
    level_text = ("Lean theorems for every key type with decidable equality, every truthiness predicate and every history (unbounded): inverse_init, inverse_step "
                  "(every public op incl. constructor entries, clear, getters), inverse_history (induction over the op list, also after a constructor that raised part-way), "
                  "no_two_names_share_address / no_two_addresses_share_name, rejected_or_nochange_is_identity (NamerError or False result => state literally unchanged), "
                  "never_keyerror (the `del` statements never raise under the invariant), keys_unique_history (dict well-formedness of the model state), "
                  "plus functional specs of the four mutators. Nothing is _partial. The hand-written model is tied to the code by the differential run "
                  "(thorough: every reachable state over 3 names x 3 addresses x every op with None/'' arguments, all histories of length <= 3 over 2x2+None).")
    level_note = ("Trusted: Lean kernel + propext/Classical.choice/Quot.sound; Python dict modelled as association list with unique keys; "
                  "keys are str or None in the correspondence (model is polymorphic); representativeness of the sampled correspondence.")
    quick_n = 6000
    thorough_n = 100000
    rule = ("case = (entries mode none|list|dict, constructor pairs, op list); ops add/rem/chga/chgn/clear/geta/getn/count over names a,b,c, addresses x,y,z, None and '' "
            "(biased to conflicts: re-add, rename onto existing, change to same value, remove with mismatching pair); "
            "non-trivial = at least one op executed on a state with >= 1 entry and at least one rejected/no-change result and one successful mutation; distinct by request line")
    trusted_base = ["correspondence harness/props/C27.py: compiled model driver vs hio.help.naming.Namer, state compared after every op",
                    "modelled: Python dict as association list (lookup/insert/delete, KeyError on deleting a missing key), truthiness of str/None"]
    assumptions = ["CPython dict get/set/del/in behave as association-list lookup/insert/erase on hashable str keys"]

    # ---------------------------------------------------------------- cases
    def corpus(self):
        return [
            ("none", [], []),
            ("list", [("a", "x"), ("b", "y")], [("add", "a", "x"), ("add", "a", "y"), ("add", "c", "x"), ("add", "c", "z")]),
            ("list", [("a", "x"), ("b", "x")], []),                      # constructor raises half-way
            ("dict", [("a", "x"), ("a", "y"), ("b", "z")], [("count",)]),
            ("list", [("a", "x"), ("b", "y")], [("chga", "a", "y"), ("chga", "a", "x"), ("chga", "a", "z"), ("chga", "c", "x"), ("geta", "a"), ("getn", "x")]),
            ("list", [("a", "x"), ("b", "y")], [("chgn", "x", "b"), ("chgn", "x", "a"), ("chgn", "x", "c"), ("chgn", "z", "a"), ("getn", "x"), ("geta", "a")]),
            ("list", [("a", "x"), ("b", "y")], [("rem", "a", "y"), ("rem", None, "x"), ("rem", "b", None), ("rem", "b", "y"), ("rem", None, None)]),
            ("list", [("a", "x"), ("b", "y")], [("rem", "", "y"), ("rem", "a", ""), ("rem", "", "")]),
            ("list", [("a", "x")], [("add", None, "y"), ("add", "b", ""), ("chga", "a", None), ("chgn", "x", ""), ("chga", None, "y"), ("chgn", None, "b")]),
            ("list", [("a", "x"), ("b", "y"), ("c", "z")], [("clear",), ("count",), ("add", "a", "z"), ("rem", "a", "x"), ("rem", "c", "z")]),
            ("list", [("a", "x")], [("chga", "a", "y"), ("add", "b", "x"), ("chgn", "x", "a"), ("chgn", "y", "b"), ("rem", None, "y"), ("add", "a", "y")]),
        ]

    def _all_ops(self, names, addrs, falsy):
        ns = list(names) + list(falsy)
        as_ = list(addrs) + list(falsy)
        ops = []
        for n in ns:
            for a in as_:
                ops += [("add", n, a), ("rem", n, a), ("chga", n, a), ("chgn", a, n)]
        return ops

    def exhaustive(self, tier):
        if tier != "thorough":
            return [], None
        cases = []
        # every reachable state (partial bijection over 3x3) x every op (incl. None / '' arguments)
        for k in range(0, 4):
            for ns in itertools.combinations(NAMES, k):
                for as_ in itertools.permutations(ADDRS, k):
                    path = [("add", n, a) for n, a in zip(ns, as_)]
                    for op in self._all_ops(NAMES, ADDRS, FALSY) + [("clear",), ("count",)] + \
                            [("geta", n) for n in NAMES + FALSY] + [("getn", a) for a in ADDRS + FALSY]:
                        cases.append(("none", [], path + [op]))
        # all histories of length <= 3 over 2 names x 2 addresses + None
        small = self._all_ops(NAMES[:2], ADDRS[:2], [None])
        for ln in range(1, 4):
            for h in itertools.product(small, repeat=ln):
                cases.append(("none", [], list(h)))
        return cases, ("every reachable state over names a,b,c x addresses x,y,z (34 states, reached by a shortest history) x every op with every argument in "
                       "{names, None, ''} x {addresses, None, ''}; all histories of length <= 3 over 2 names x 2 addresses + None (36 ops)")

    def _key(self, rng, pool, pf=0.08):
        r = rng.random()
        if r < pf:
            return rng.choice(FALSY)
        return rng.choice(pool)

    def _op(self, rng, names, addrs, state):
        """state: python dict name->addr of what a correct Namer would hold (only to bias toward conflicts)"""
        r = rng.random()
        n = self._key(rng, names)
        a = self._key(rng, addrs)
        if state and rng.random() < 0.5:      # aim at existing entries
            en, ea = rng.choice(sorted(state.items()))
            m = rng.random()
            if m < 0.35:
                n = en
            elif m < 0.7:
                a = ea
            else:
                n, a = en, ea
        if r < 0.30:
            return ("add", n, a)
        if r < 0.52:
            m = rng.random()
            if m < 0.3:
                return ("rem", n, rng.choice(FALSY))
            if m < 0.6:
                return ("rem", rng.choice(FALSY), a)
            return ("rem", n, a)
        if r < 0.70:
            return ("chga", n, a)
        if r < 0.88:
            return ("chgn", a, n)
        if r < 0.90:
            return ("clear",)
        if r < 0.94:
            return ("geta", n)
        if r < 0.98:
            return ("getn", a)
        return ("count",)

    @staticmethod
    def _shadow(state, op):
        """reference semantics only used to steer generation"""
        inv = {a: n for n, a in state.items()}
        k = op[0]
        if k == "add":
            _, n, a = op
            if n and a and n not in state and a not in inv:
                state[n] = a
        elif k == "rem":
            _, n, a = op
            if n:
                if n in state and (not a or state[n] == a):
                    del state[n]
            elif a and a in inv:
                del state[inv[a]]
        elif k == "chga":
            _, n, a = op
            if n and a and n in state and a not in inv:
                state[n] = a
        elif k == "chgn":
            _, a, n = op
            if n and a and a in inv and n not in state:
                del state[inv[a]]
                state[n] = a
        elif k == "clear":
            state.clear()

    def generate(self, rng, n, tier):
        for _ in range(n):
            nn = rng.choice([1, 2, 2, 3, 3, 3, 5])
            na = rng.choice([1, 2, 2, 3, 3, 3, 5])
            names = (NAMES + ["dd", "é"])[:nn]
            addrs = (ADDRS + ["ww", "a"])[:na]      # "a" is also a name: names and addresses may collide as strings
            mode = rng.choice(["none", "none", "list", "list", "dict"])
            pairs = []
            if mode != "none":
                for _ in range(rng.randrange(0, 4)):
                    pairs.append((self._key(rng, names, 0.03), self._key(rng, addrs, 0.03)))
            state = {}
            case0 = (mode, pairs, [])
            ok = True
            for p in _pairs(case0):
                before = dict(state)
                self._shadow(state, ("add",) + p)
                if state == before and not (p[0] in state and state.get(p[0]) == p[1]):
                    ok = False
                    break
            ops = []
            if ok or rng.random() < 0.3:
                for _ in range(rng.choice([1, 2, 3, 4, 6, 8, 12, 20])):
                    op = self._op(rng, names, addrs, state)
                    self._shadow(state, op)
                    ops.append(op)
            yield (mode, pairs, ops)

    # ---------------------------------------------------------------- wire
    def request(self, case):
        ops = []
        for op in case[2]:
            ops.append((op[0],) + tuple(_k(x) for x in op[1:]))
        return ("namer", [(_k(n), _k(a)) for n, a in _pairs(case)], ops)

    # ---------------------------------------------------------------- implementation
    def run_impl(self, case):
        from hio.help import naming
        from hio import hioing
        mode, pairs, ops = case

        def classify(ex):
            if isinstance(ex, hioing.NamerError):
                return ("raise", "NamerError")
            if isinstance(ex, KeyError):
                return ("raise", "KeyError")
            raise ex

        if mode == "none":
            entries = None
        elif mode == "dict":
            entries = dict((n, a) for n, a in pairs)
        else:
            entries = [tuple(p) for p in pairs]
        try:
            nm = naming.Namer(entries=entries)
        except Exception as ex:
            return (classify(ex),)
        out = [("ok", _items(nm.addrByName), _items(nm.nameByAddr))]
        for op in ops:
            k = op[0]
            try:
                if k == "add":
                    r = nm.addNameAddr(name=op[1], addr=op[2])
                elif k == "rem":
                    r = nm.remNameAddr(name=op[1], addr=op[2])
                elif k == "chga":
                    r = nm.changeAddrAtName(name=op[1], addr=op[2])
                elif k == "chgn":
                    r = nm.changeNameAtAddr(addr=op[1], name=op[2])
                elif k == "clear":
                    r = nm.clearAllNameAddr()
                elif k == "geta":
                    r = nm.getAddr(op[1])
                elif k == "getn":
                    r = nm.getName(op[1])
                elif k == "count":
                    r = nm.countNameAddr
                else:
                    raise core.Infra(f"bad op {op!r}")
                if isinstance(r, str):
                    r = r.encode("utf-8")
                res = ("ok", r)
            except core.Infra:
                raise
            except Exception as ex:
                res = classify(ex)
            out.append((res, _items(nm.addrByName), _items(nm.nameByAddr)))
        return tuple(out)

    # ---------------------------------------------------------------- oracle (property text, real dicts only)
    def oracle(self, case, obs):
        bad = []
        if obs[0][0] == "raise":
            return bad            # constructor rejected the entries: no object to speak about
        prev = None
        for i, st in enumerate(obs):
            if i == 0:
                res, n2a, a2n = None, st[1], st[2]
            else:
                res, n2a, a2n = st
            dn, da = dict(n2a), dict(a2n)
            if any(da.get(a) != n for n, a in dn.items()) or any(dn.get(n) != a for a, n in da.items()) or len(dn) != len(da):
                bad.append("not-inverse")
            if len(set(dn.values())) != len(dn):
                bad.append("two-names-share-address")
            if res is not None:
                op = case[2][i - 1]
                rejected = res[0] == "raise"
                nochange = op[0] in BOOL_OPS and res == ("ok", False)
                query = op[0] in ("geta", "getn", "count")
                if (rejected or nochange or query) and (n2a, a2n) != prev:
                    bad.append("rejected-or-nochange-op-changed-state" if not query else "query-changed-state")
            prev = (n2a, a2n)
        return sorted(set(bad))

    def nontrivial(self, case, obs):
        if obs[0][0] == "raise":
            return False
        seen_rej = seen_mut = seen_nonempty = False
        prev = (obs[0][1], obs[0][2])
        for st in obs[1:]:
            if prev[0]:
                seen_nonempty = True
            if st[0][0] == "raise" or st[0] == ("ok", False):
                seen_rej = True
            if (st[1], st[2]) != prev:
                seen_mut = True
            prev = (st[1], st[2])
        return seen_rej and seen_mut and seen_nonempty

    def features(self, case, obs):
        f = [f"entries:{case[0]}", f"len:{min(len(case[2]), 20) // 4 * 4}+"]
        if obs[0][0] == "raise":
            f.append("init:raise")
            return f
        for op, st in zip(case[2], obs[1:]):
            r = st[0]
            tag = r[1] if r[0] == "raise" else ("True" if r[1] is True else "False" if r[1] is False else "value")
            f.append(f"{op[0]}:{tag}")
            if any(x in FALSY for x in op[1:]):
                f.append(f"{op[0]}:falsy-arg")
        return f

    def shrink(self, case):
        mode, pairs, ops = case
        for i in range(len(ops)):
            yield (mode, pairs, ops[:i] + ops[i + 1:])
        for i in range(len(pairs)):
            yield (mode, pairs[:i] + pairs[i + 1:], ops)
        if mode != "none" and not pairs:
            yield ("none", [], ops)
        if mode == "dict":
            yield ("list", pairs, ops)

    def mutate(self, rng, case):
        mode, pairs, ops = case
        out = list(self.shrink(case))
        every = self._all_ops(NAMES, ADDRS, [None])
        for _ in range(40):
            out.append((mode, pairs, list(ops) + [rng.choice(every)]))
            if ops:
                i = rng.randrange(len(ops))
                out.append((mode, pairs, ops[:i] + [rng.choice(every)] + ops[i:]))
        return out


CHECK = C27()
