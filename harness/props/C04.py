"""C04 — nesting doers inside a tock-0 DoDoer is observationally transparent (hio.base.doing DoDoer.do/enter/recur/exit)."""
from .. import core, sx
from ..areas import sched as S
from ..areas import schedt as T


class C04(T.SeqCases, S.SchedCheck):
    pid = "C04"
    props_mod = "HioModel.Props.C04"
    design_ref = "DESIGN.md §5 C04, Appendix A.2, §7 F46"
    quick_n = 500
    thorough_n = 12000
    workers = 1
    technique = ("Lean 4 simulation proof between the nested run-time forest and its flattening (due tymes related by due-equivalence, preserved by one cycle) "
                 "over the shared scheduler model; oracle = the REAL code run twice, nested and flattened, leaf views compared (no model involved); "
                 "correspondence = both real runs against the compiled model (request head flatpair, the model flattens with its own Spec.flatL)")
    level_text = ("flatten_transparent_partial: for every time type with LawfulTyme, 0 <= tock, every start/limit/fuel, every forest of leaves and transparent DoDoers at ANY nesting "
                  "depth (op-free, fault-free) whose leaf scripts satisfy guard G04 (positive* asap*), the nested run and the run of its flattening have the same kept-event "
                  "sequence (every leaf event incl. enter order, recur steps, forced exits, done flags), done, final tyme, cycle count, raised; flatten_transparent_doer_partial spells out resumption tymes and final done flag per doer; flatL_transparent_partial is the same for the function Spec.flatL the driver uses.  regroup_transparent_partial: "
                  "any two regroupings of the same flat program agree.  The unguarded statement is FALSE on the model: flatten_transparent_fails_at_asap_then_positive (decided "
                  "witness of pre-finding F46), replayed on the real code in corpus(); recorded as known finding C04-K1.  flatten_transparent_hetero_partial extends the theorem to forests with KEPT DoDoers whose tock is 0 (always) or the scheduler's tock, "
                  "transparent groups beside/inside/around them; for a kept DoDoer with another tock the statement is false: transparent_under_lagging_dodoer_fails (decided; known finding C04-K2).")
    level_note = "PARTIAL under G04; the theorems are for fault-free programs: single-fault programs (failing doer's group last at every level) are covered by oracle + correspondence only.  The oracle compares two runs of the real code; the model is used only by the correspondence."
    trusted_base = S.SchedCheck.trusted_base + [
        "oracle harness/areas/schedt.py: run_program on the nested program and on flatten_specs(program); leaf_view / c04_clauses compare them"]
    assumptions = ["programs are op-free; fault-free, or with ONE raise/KeyboardInterrupt at a step of a leaf whose transparent group comes last at every level, or ONE failing enter anywhere (elsewhere the nested exit order is children-before-parent by design and differs from the flat one)",
                   "IEEE-754 doubles satisfy LawfulTyme on the values used (no Lean instance)"]
    rule = ("random op-free fault-free forests (leaves, optionally DoDoers with tock > 0) + random regroupings of consecutive siblings under DoDoer(tock=0): every level, nested (depth <= 4), "
            "empty groups, groups at every position; scripts positive* asap* / asap-then-positive / mixed; limits incl. non-multiples; starts != 0; non-dyadic tocks.  "
            "9% small worlds with the DYNAMIC API: the same remove/extend op script (removes naming a doer by an equal-but-not-identical bound method, extends re-offering completed members, pool doers) applied to the Doist (flat) and to a tock-0 DoDoer holding the same members (nested), oracle only; 40% of the flat/nested/g04 programs hold waiter doers that READ a sibling's .done (function-style targets whose flag comes from the return value; waiter after / before its target, inside / outside its group); 2 in 9 programs carry one fault — a raise/KeyboardInterrupt at a step under the last-group guard, or (40% of them) a failing ENTER of any member at any position of any group, nested too (raise / KeyboardInterrupt at a step, mid cycle, live siblings before and after it in its group, the group last at every level): forced-exit order nested vs flat; ~40% of the cases reach the same program through a history or another entry point (schedt.run_var: seq, same Doist twice, faulted first run, pre-wound, ints, iterator, doers at init, __call__, hand-driven enter/recur/exit, DoDoer opts); formerly: 30% of the cases are SECOND runs (the same nested / flat doer objects first run under another Doist with another start tyme, cut by a limit, then under a fresh Doist).  thorough: every single and double regrouping of 4 fixed 3..4-leaf programs.  non-trivial = the nested program has a transparent group holding >= 1 live leaf and >= 8 recur events; distinct by request line")

    def corpus(self):
        return [("dynpair", tuple(sorted(g.items()))) for g in self.PAIR_CORPUS] + list(T.TIMING_CORPUS) + list(T.WAITER_CORPUS) + list(T.FAULT_CORPUS) + list(T.ENTER_FAULT_CORPUS) + list(T.DEGENERATE_CORPUS) + self.seq_corpus(T.TIMING_CORPUS + T.WAITER_CORPUS)

    def exhaustive(self, tier):
        if tier != "thorough":
            return [], None
        progs = [
            (1.0, 0.0, None, [T._lf(1, [0.0, 0.0]), T._lf(2, [2.0, 0.0], "plain"), T._lf(3, [0.5, 0.5, 0.0], "genrecur")]),
            (0.3, 0.3, 2.0, [T._lf(1, [0.7, 0.0]), T._lf(2, [0.0] * 9, "plain"), T._lf(3, [0.3] * 9, "bound"), T._lf(4, [], "doize")]),
            (0.25, 1.0, None, [T._lf(1, [0.0, 0.6]), T._lf(2, [0.1, None], "genrecur"), T._lf(3, [1.0], "genrecur", ret=(False,))]),
            (0.5, 0.0, 1.7, [T._lf(1, [None] * 6, "genrecur"), T._lf(2, [1.0] * 3, "plain"), T._lf(3, [0.0] * 2, "doify", ("done", True)), T._lf(4, [0.75, 0.75])]),
        ]
        cs = []
        for tock, start, limit, specs in progs:
            for sp in T.all_regroupings(specs, 20):
                cs.append(("run", tock, start, limit, [], sp))
        return cs, "every single regrouping (any run of consecutive siblings incl. empty, any position) and every double regrouping (side by side, around, inside) of 4 fixed programs of 3-4 leaves"

    def generate(self, rng, n, tier):
        def plain():
            made = 0
            while made < n:
                kind = rng.choice(["nested", "nested", "g04", "g04", "g04", "f46", "hetero", "fault", "fault"])
                if rng.random() < 0.04:
                    yield T.gen_degenerate(rng)
                    made += 1
                    continue
                if rng.random() < 0.09:
                    yield ("dynpair", T.gen_world(rng, "pair"))
                    made += 1
                    continue
                if kind == "fault":
                    yield T.gen_faulted(rng) if rng.random() < 0.6 else T.gen_enter_fault(rng)
                    made += 1
                    continue
                c = T.gen_timed(rng, kind)
                yield c
                made += 1
                if rng.random() < 0.3:
                    for c2 in T.regroupings_of(c, rng, 2):
                        yield c2
                        made += 1
        return self.with_seq(rng, plain())

    def request(self, case):
        if case[0] == "dynpair":
            return ("unmodelled",)
        return T.request_head("flatpair", self.base(case))

    PAIR_CORPUS = (
        # remove by an equal-but-not-identical object (a bound method fetched afresh) while the doer is live
        dict(tock=1.0, start=0.0, limit=8.0, pool=[], doers=[(1, "fn", [0.0] * 6), (2, "bound", [0.0] * 6), (3, "doizebound", [0.0] * 6)],
             ops=[(1, 2, ("remove", [2], True)), (1, 3, ("remove", [3], True))]),
        # a member completes and is offered to extend() again together with a new doer
        dict(tock=0.5, start=1.0, limit=8.0, pool=[(50, "fn", [0.0, 0.0])], doers=[(1, "fn", [0.0]), (2, "bound", [0.0] * 9), (3, "doer", [0.0] * 3)],
             ops=[(2, 5, ("extend", [1, 50])), (2, 7, ("extend", [3, 1]))]),
    )

    def run_impl(self, case):
        with T.waiters():
            return self._run_impl(case)

    def _run_impl(self, case):
        T.settle_heap()
        if case[0] == "dynpair":
            return T.WorldObs(T.run_world(case[1], nested=False), T.run_world(case[1], nested=True))
        if case[0] in ("seq", "var"):
            # nested objects and flat objects each go through the same history / entry point; those runs are compared
            v = self.variant(case)
            return T.PairObs(T.run_var(case[2], v), T.run_var(T.flatten_case(case[2]), v))
        a = S.run_program(case)
        b = S.run_program(T.flatten_case(case))
        return T.PairObs(a, b)

    def views(self, case, obs):
        case = self.base(case)
        drop = set(T.spliced_ids(case[5]))
        return T.leaf_view(case, obs.a, drop), T.leaf_view(T.flatten_case(case), obs.b, drop)

    def nontrivial(self, case, obs):
        if case[0] == "dynpair":
            return len(obs.a["trace"]) >= 10
        case = self.base(case)
        spec, par, pools, kids = S.spec_index(case)
        has = any(s[0] == "leaf" and par[i] != 0 and T.transparent(spec[par[i]]) and not isinstance(s[3], tuple) for i, s in spec.items())
        return has and sum(1 for e in obs.a["trace"] if e[1] == "recur") >= 8

    def features(self, case, obs):
        f = super().features(case, obs)
        if case[0] == "dynpair":
            return f
        case0, case = case, self.base(case)
        sp = [s for s, _, _ in S.all_specs(case)]
        tg = [s for s in sp if T.transparent(s)]
        f.append("transparent-groups~%d" % min(len(tg), 6))
        if any(not s[4] for s in tg):
            f.append("empty-group")
        if any(T.transparent(k) for s in tg for k in s[4]):
            f.append("transparent-in-transparent")
        if obs.a["done"] is False:
            f.append("stopped-by-limit")
        if T.g04_break_reached(case, obs.a, None):
            f.append("G04-broken-reached")
        if T.enter_fault_only(case):
            f.append("enter-fault-inside-forest:" + obs.a["raised"])
        if not T.fault_free(case) and T.single_fault_last_path(case):
            f.append("fault-in-last-group:" + obs.a["raised"])
            live = [e[0] for e in obs.a["trace"] if e[1] == "cease"]
            if len(live) >= 2:
                f.append("fault-with>=2-survivors")
        return f

    def oracle(self, case, obs):
        if case[0] == "dynpair":
            return T.c04_pair_clauses(obs.a, obs.b)
        case = self.base(case)
        if not T.op_free(case):
            return []
        if not T.fault_free(case) and not T.single_fault_last_path(case) and not T.enter_fault_only(case):
            return []          # with a fault elsewhere nested closes children before the parent's later siblings: differs by design
        vn, vf = self.views(case, obs)
        return T.c04_clauses(vn, vf)

    def known(self, case, obs, clauses):
        if case[0] == "dynpair":
            return None
        case = self.base(case)
        vn, vf = self.views(case, obs)
        up = T.first_divergence_tyme(vn, vf)
        if up is None:
            up = min(vn["tyme"], vf["tyme"])
        # C04-K1 (pre-finding F46): a leaf under a transparent group yields a positive tock after an asap yield, before the runs diverge
        if T.g04_break_reached(case, obs.a, up):
            return "C04-K1"
        # C04-K2: a transparent group inside a DoDoer with tock > 0 was not resumed at a recur of that parent, before the runs diverge
        if T.skipped_transparent(case, obs.a, up):
            return "C04-K2"
        return None


CHECK = C04()
