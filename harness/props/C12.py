"""C12 — idle HTTP server connections time out after the configured tymeout (tcp.Server -> Remoter tymer; http.Server.serviceConnects)."""
from .. import core, sx
from ..areas import tcp as T
from ..extract import tcp as xtcp


CONN_VALUES = [b"close", b"Close", b"CLOSE", b"TE, close", b"TE,close", b"close, TE", b" close", b"TE ,  close", b"upgrade, close, te",
               b"keep-alive", b"Keep-Alive", b"keep-alive, Upgrade", b"Upgrade , Keep-Alive", b"TE", b"upgrade", b"TE, Keep-Alive"]


class C12(core.Check):
    pid = "C12"
    pkg = "Tcp"
    props_mod = "HioModel.Props.C12"
    design_ref = "DESIGN.md §5 C12"
    technique = ("Lean 4 theorems over a model of the remoter tymer / refresh / http idle check in virtual tyme; differential run of the compiled model against the real "
                 "http.Server + tcp.Server(+Tls) + Remoter + Tymer chain driven by a virtual Tymist (fake sockets; thorough adds real loopback sockets)")
    level_text = ("Proved for every tymeout and every history over tick / arrival (data, HTTP/1.1 request, HTTP/1.0 request) / service / re-wind of the server / change of the peer's send capacity (unbounded): deadline_invariant, traffic_restarts_tymer (traffic in EITHER direction — bytes read or >= 1 byte of output accepted), wind_restarts_tymer, idle_closed (no traffic for >= tymeout => the next service closes a non-persistent connection, WHATEVER output is still queued when the peer takes nothing), stays_closed, active_never_closed (traffic — incoming or a response leaving in partial sends — within every window => never closed by the idle check), persistent_request_disables, persistent_never_closed, zero_tymeout_never_closes. "
                  "That the configured tymeout reaches the remoter, that TLS remoters refresh too and the order check-before-receive are carried by the correspondence run on the real classes.")
    level_note = ("Trusted: Lean kernel + standard axioms; tymes are multiples of 1/8 s so float arithmetic in Tymer is exact; the HTTP request parser's decision 'persistent' is taken from the real code, "
                  "modelled as an event.")
    quick_n = 1500
    thorough_n = 10000
    rule = ("case = (tls, tymeout in 1/8 s, ops) with ops connect(ca) / tick(d) / data(ca, n) (bytes of an unfinished request) / req(ca) (complete HTTP/1.1 request) / req10(ca) (complete non-persistent HTTP/1.0 request) / cap(ca, k) (the peer's socket takes k bytes per send, 0 = blocked) / wind(t) (server re-wound onto a tymist at tyme t, ahead or behind) / service; output phases of many short rounds with small or zero capacity; "
            "tymeout in {0,1,2,8,40}, 1-3 connections, ticks biased to the deadline -1/0/+1, bursts of several arrivals before one service. "
            "non-trivial = some connection is closed for idleness or survives past one full tymeout because of traffic; distinct by request line")
    trusted_base = ["correspondence harness/props/C12.py: compiled model vs http.Server/tcp.Server/Remoter/Tymer under a virtual Tymist", "fake socket harness/areas/tcp.py:FakeSock"]
    assumptions = ["virtual tyme advances only through Tymist.tick; tymes used are exactly representable doubles"]

    def extract(self):
        return xtcp.extract()

    def corpus(self):
        return [
            (False, 8, [("conn", 1), ("svc",), ("tick", 3), ("data", 1, 4), ("svc",), ("tick", 3), ("svc",), ("tick", 5), ("svc",), ("tick", 8), ("svc",)]),
            # F16: a burst of receives must not push the deadline n * tymeout away
            (False, 8, [("conn", 1), ("svc",), ("tick", 1), ("data", 1, 4), ("data", 1, 4), ("data", 1, 4), ("svc",), ("data", 1, 1), ("svc",), ("data", 1, 1), ("svc",), ("tick", 8), ("svc",), ("tick", 8), ("svc",)]),
            # F17: TLS remoters refresh as well
            (True, 8, [("conn", 1), ("svc",), ("tick", 6), ("data", 1, 4), ("svc",), ("tick", 6), ("svc",), ("tick", 2), ("svc",)]),
            (True, 8, [("conn", 1), ("svc",), ("tick", 8), ("svc",)]),
            (False, 8, [("conn", 1), ("svc",), ("tick", 1), ("req", 1), ("svc",), ("svc",), ("tick", 8), ("svc",), ("tick", 80), ("svc",)]),
            (False, 0, [("conn", 1), ("svc",), ("tick", 100), ("svc",)]),
            # Connection header values are LISTS of options (RFC 7230): `TE, close` is not persistent, `Upgrade , Keep-Alive` on 1.0 is
            (False, 8, [("conn", 1), ("svc",), ("reqh", 1, False, b"TE, close"), ("svc",), ("svc",), ("svc",), ("tick", 9), ("svc",)]),
            (False, 8, [("conn", 1), ("svc",), ("cap", 1, 0), ("reqh", 1, False, b"TE, close"), ("svc",), ("tick", 8), ("svc",)]),
            (True, 2, [("conn", 1), ("svc",), ("reqh", 1, True, b"Upgrade , Keep-Alive"), ("svc",), ("tick", 9), ("svc",), ("svc",)]),
            (False, 2, [("conn", 1), ("svc",), ("data", 1, 3), ("reqh", 1, True, b"keep-alive"), ("svc",), ("tick", 5), ("svc",)]),
            # a WireLog attached: inbound-only traffic in every window still counts as activity; idle still closes
            (False, 8, [("conn", 1), ("svc",)] + [("tick", 7), ("data", 1, 2), ("svc",)] * 4 + [("tick", 8), ("svc",)], None, "std"),
            (True, 8, [("conn", 1), ("svc",)] + [("tick", 7), ("data", 1, 2), ("svc",)] * 3 + [("tick", 8), ("svc",)], None, ("cfg", False, True, False, True, False)),
            (False, 2, [("conn", 1), ("svc",), ("req10", 1), ("svc",), ("svc",), ("svc",)], "subclass", "raw"),
            # every way of configuring the tymeout
            (False, 3, [("conn", 1), ("svc",), ("tick", 3), ("svc",), ("tick", 40), ("svc",)], "none"),
            (False, 3, [("conn", 1), ("svc",), ("tick", 2), ("svc",), ("tick", 1), ("svc",)], "subclass"),
            (False, 3, [("conn", 1), ("svc",), ("tick", 2), ("svc",), ("tick", 1), ("svc",)], "classattr"),
            (False, 3, [("conn", 1), ("svc",), ("tick", 2), ("svc",), ("tick", 1), ("svc",)], "servant"),
            (False, 3, [("conn", 1), ("svc",), ("tick", 7), ("svc",), ("tick", 1), ("svc",)], "servant-default"),
            (True, 3, [("conn", 1), ("svc",), ("tick", 7), ("svc",), ("tick", 1), ("svc",)], "servant-default"),
            # the server's tymeout is changed after construction: later connections get the new one, earlier ones keep theirs
            (False, 8, [("conn", 1), ("svc",), ("settmo", 2), ("conn", 2), ("svc",), ("tick", 2), ("svc",), ("tick", 6), ("svc",)]),
            (True, 0, [("conn", 1), ("svc",), ("settmo", 3), ("conn", 2), ("svc",), ("tick", 3), ("svc",)]),
            ("nd", 3, [("conn", 1), ("svc",), ("tick", 1), ("data", 1, 2), ("svc",), ("tick", 2), ("svc",), ("tick", 2), ("svc",)]),
            # send-side traffic: a response leaving in partial sends keeps a non-persistent connection alive
            (False, 8, [("conn", 1), ("svc",), ("cap", 1, 3), ("req10", 1), ("svc",)] + [("tick", 3), ("svc",)] * 8 + [("cap", 1, 1 << 30), ("svc",), ("svc",)]),
            # blocked sends are not traffic: queued output must not keep an idle connection open
            (False, 8, [("conn", 1), ("svc",), ("cap", 1, 0), ("req10", 1), ("svc",), ("tick", 7), ("svc",), ("tick", 1), ("svc",), ("tick", 8), ("svc",)]),
            (True, 2, [("conn", 1), ("svc",), ("cap", 1, 0), ("req10", 1), ("svc",), ("tick", 2), ("svc",)]),
            # re-wind onto a tymist that is behind / ahead of the old one
            (False, 8, [("conn", 1), ("svc",), ("tick", 40), ("data", 1, 1), ("svc",), ("wind", 0), ("tick", 7), ("svc",), ("tick", 1), ("svc",)]),
            (False, 8, [("conn", 1), ("svc",), ("tick", 2), ("wind", 400), ("data", 1, 2), ("svc",), ("tick", 7), ("svc",), ("tick", 1), ("svc",)]),
            ("real", 8, [("conn", 1), ("svc",), ("tick", 3), ("wind", 100), ("tick", 7), ("svc",), ("req10", 1), ("svc",), ("svc",), ("svc",)]),
            (False, 2, [("conn", 1), ("conn", 2), ("svc",), ("tick", 1), ("data", 2, 1), ("svc",), ("tick", 1), ("svc",), ("tick", 1), ("svc",)]),
        ]

    def generate(self, rng, n, tier):
        nreal = 12 if tier == "quick" else 300
        for i in range(n):
            tls = rng.random() < 0.4
            if i < nreal:
                tls = "real"
            elif i % 9 == 0:
                tls = "nd"
            tmo = rng.choice([0, 1, 2, 8, 8, 8, 40])
            ncon = rng.choice([1, 1, 2, 3])
            ops = []
            joined = []
            for ca in range(1, ncon + 1):
                if rng.random() < 0.7:
                    ops.append(("conn", ca))
                    joined.append(ca)
            ops.append(("svc",))
            since = 0
            requested = set()
            for _ in range(rng.randrange(3, 28)):
                r = rng.random()
                if r < 0.28:
                    if tmo and rng.random() < 0.6:
                        d = max(0, tmo - since + rng.choice([-1, 0, 0, 1]))
                    else:
                        d = rng.choice([0, 1, 1, 2, 3, tmo, tmo + 1, rng.randrange(0, 2 * tmo + 3)])
                    ops.append(("tick", d))
                    since += d
                elif r < 0.45 and joined:
                    ca = rng.choice(joined)
                    for _ in range(rng.choice([1, 1, 1, 2, 3, 5])):
                        ops.append(("data", ca, rng.choice([1, 2, 5])))
                elif r < 0.55 and joined:
                    ca = rng.choice(joined)   # at most one complete request per connection
                    if ca not in requested:
                        requested.add(ca)
                        if rng.random() < 0.5:
                            # a Connection header: a comma separated list of options, any case, optional blanks, any order
                            ops.append(("reqh", ca, rng.random() < 0.4, rng.choice(CONN_VALUES)))
                        else:
                            ops.append((rng.choice(["req", "req10", "req10"]), ca))
                elif r < 0.65 and joined and tls != "real":
                    # how many bytes the peer lets through per send: blocked, dribble, a few, everything
                    ops.append(("cap", rng.choice(joined), rng.choice([0, 0, 1, 1, 3, 40, T.BIGCAP])))
                elif r < 0.7:
                    ops.append(("wind", rng.choice([0, 0, rng.randrange(0, 60), 1000])))
                    since = 0
                elif r < 0.72 and tls != "real":
                    ops.append(("settmo", rng.choice([0, 1, 2, 8, 40])))
                elif r < 0.74 and len(joined) < ncon:
                    ca = [c for c in range(1, ncon + 1) if c not in joined][0]
                    ops.append(("conn", ca))
                    joined.append(ca)
                else:
                    ops.append(("svc",))
                    if rng.random() < 0.5:
                        since = 0
            ops.append(("svc",))
            if tls != "real" and joined and tmo and rng.random() < 0.3:
                # output phase: a request answered into a socket that takes little or nothing, then many short rounds
                ca = rng.choice(joined)
                cap = rng.choice([0, 0, 1, 2, 3, 7])
                tail = [("cap", ca, cap)]
                if ca not in requested:
                    tail.append((rng.choice(["req10", "req10", "req"]), ca))
                tail.append(("svc",))
                for _ in range(rng.randrange(2, 14)):
                    tail.append(("tick", rng.choice([max(0, tmo - 1), max(0, tmo - 1), tmo // 2, 1, tmo])))
                    if rng.random() < 0.15:
                        tail.append(("cap", ca, rng.choice([0, 1, 3, T.BIGCAP])))
                    tail.append(("svc",))
                ops += tail
            # optional collaborators present / absent: a WireLog (any configuration) attached to the server and handed to every remoter
            wlm = None
            if tls in (False, True) and rng.random() < 0.4:
                wlm = rng.choice(["std", "samed", "raw", ("cfg", False, False, False, True, True), ("cfg", False, False, False, False, True),
                                  ("cfg", False, True, False, True, False), ("cfg", True, False, False, True, True)])
            if wlm is not None:
                route = rng.choice(T.ROUTES) if (tls is False and rng.random() < 0.5) else ("servant-default" if (tls is True and rng.random() < 0.3) else None)
                yield (tls, tmo, ops, route, wlm)
            elif tls is False and rng.random() < 0.5:
                # how the server got its tymeout: constructor number, None (class default), subclass / class attribute override,
                # a servant with its own tymeout or with tcp's default
                yield (tls, tmo, ops, rng.choice(T.ROUTES))
            elif tls is True and rng.random() < 0.3:
                yield (tls, tmo, ops, "servant-default")
            else:
                yield (tls, tmo, ops)

    def request(self, case):
        tls, tmo, ops = case[:3]
        if tls == "nd":
            return ("noop",)
        if len(case) > 3 and case[3]:
            tmo = T.effective_tymeout(tmo, case[3])
        return ("idle", tls is True, tmo, T.resp_len(), [tuple(o) for o in T.resolve_reqh(ops)])

    def compare_view(self, case, obs):
        if len(obs) == 2 and obs[0] == "EXC":
            return "(escaped " + obs[1] + ")"
        if case[0] == "nd":
            return "noop"
        return sx.dumps(T.strip_idle(obs))

    def run_impl(self, case):
        if case[0] == "real":
            return T.run_real_idle(case)
        if case[0] == "nd":    # tymes that are NOT exactly representable: unit 0.1 s, plain server, no model (float rounding)
            return T.run_idle((False,) + tuple(case[1:]), UNIT=0.1)
        return T.run_idle(case)

    def oracle(self, case, obs):
        """per connection: `seen` = tyme of the last service at which there was traffic on it — bytes from the peer read, or
        bytes of output the peer's socket accepted — or its acceptance, or the last re-wind of the server;
        idle >= tymeout at a service => closed after it, whatever is still queued; idle < tymeout => not closed by it, unless the
        HTTP layer is done with a non-persistent exchange (response completely accepted by the socket);
        persistent / tymeout 0 => never closed"""
        tls, tmo, ops = case[:3]
        if len(obs) == 2 and obs[0] == "EXC":
            return ["escaped:" + obs[1]]
        if len(case) > 3 and case[3]:
            tmo = T.effective_tymeout(tmo, case[3])     # what the documented precedence gives the connections
        L = T.resp_len()
        bad = []
        now = 0
        order = []
        state = {}
        cur_tmo = tmo
        for op, (st, snap) in zip(ops, obs):
            if st != "ok":
                bad.append("service-raised")
            k = op[0]
            if k == "conn":
                order.append(op[1])
                state[op[1]] = dict(acc=False, seen=None, und=0, undreq=False, und10=False, pers=False, open=True, inhead=False,
                                    nonpers=False, kacc=0, kacc_at_req=None, tmo=None)
            elif k == "settmo":
                cur_tmo = op[1]
            elif k == "tick":
                now += op[1]
            elif k == "wind":
                now = op[1]
                for s_ in state.values():
                    if s_["acc"] and s_["open"]:
                        s_["seen"] = now
            elif k in ("data", "req", "req10", "reqh"):
                s_ = state.get(op[1])
                if s_ and s_["acc"] and s_["open"]:
                    s_["und"] += 1
                    if k == "data":
                        s_["inhead"] = True
                    else:
                        if k == "reqh":
                            pers = T.connection_persistent(op[2], s_["inhead"], op[3])
                        else:
                            pers = k == "req" or s_["inhead"]
                        if pers:
                            s_["undreq"] = True
                        else:
                            s_["und10"] = True
                        s_["inhead"] = False
                elif s_ and k != "data" and not s_["acc"]:
                    pass
            elif k == "svc":
                for i, ca in enumerate(order):
                    s_ = state[ca]
                    got, txlen, kacc = snap[i]
                    if got == "dropped-but-socket-open":
                        bad.append("dropped-but-socket-open")
                        got = "closed"
                    if not s_["acc"]:
                        s_["acc"] = True
                        s_["tmo"] = cur_tmo     # a connection keeps the tymeout the server had when it was accepted
                        s_["seen"] = now
                        if got != "open":
                            bad.append("closed-at-accept")
                            s_["open"] = False
                        continue
                    if not s_["open"]:
                        if got != "closed":
                            bad.append("reopened")
                        continue
                    idle = now - s_["seen"]
                    sent_now = kacc > s_["kacc"]
                    done10 = s_["nonpers"] and s_["kacc"] - s_["kacc_at_req"] >= L   # the whole response had left before this pass
                    tmo_c = s_["tmo"]
                    if tls == "nd" and not s_["pers"] and tmo_c and idle == tmo_c:
                        # exactly at the deadline in inexact float tyme: either outcome is in tolerance
                        s_["open"] = got == "open"
                        s_["kacc"] = kacc
                        if s_["open"] and (s_["und"] or sent_now):
                            s_["seen"] = now
                        continue
                    if s_["pers"] or tmo_c == 0:
                        if got != "open":
                            if not done10:
                                bad.append("persistent-or-untimed-closed")
                            s_["open"] = False
                    elif idle >= tmo_c:
                        if got != "closed":
                            bad.append("idle-not-closed")
                        s_["open"] = got != "closed"
                    elif got != "open":
                        if not done10:
                            bad.append("active-closed")
                        s_["open"] = False
                    if s_["open"] and (s_["und"] or sent_now):
                        s_["seen"] = now
                    if s_["open"] and s_["und"]:
                        s_["pers"] = s_["pers"] or s_["undreq"]
                        if s_["und10"] and not s_["nonpers"]:
                            s_["nonpers"] = True
                            s_["kacc_at_req"] = s_["kacc"]
                        s_["und"] = 0
                        s_["undreq"] = False
                        s_["und10"] = False
                    s_["kacc"] = kacc
        return sorted(set(bad))

    def nontrivial(self, case, obs):
        tls, tmo, ops = case[:3]
        if len(obs) == 2 and obs[0] == "EXC":
            return True
        closed = any(e[0] == "closed" for st, snap in obs for e in snap)
        total = sum(o[1] for o in ops if o[0] == "tick")
        survived = tmo > 0 and total >= tmo and obs and any(e[0] == "open" for e in obs[-1][1]) and any(o[0] in ("data", "req", "req10") for o in ops)
        return closed or survived

    def features(self, case, obs):
        tls, tmo, ops = case[:3]
        if len(obs) == 2 and obs[0] == "EXC":
            return ["escaped"]
        f = ["real-loopback" if tls == "real" else "non-dyadic-tyme" if tls == "nd" else "tls" if tls else "plain", "tymeout:%d" % tmo, "conns:%d" % sum(1 for o in ops if o[0] == "conn")]
        if obs:
            for x in obs[-1][1]:
                f.append("end:" + x[0])
        if len(case) > 3 and case[3]:
            f.append("route:" + case[3])
        if len(case) > 4 and case[4]:
            f.append("wirelog-attached")
        for kk in ("req10", "reqh", "cap", "wind"):
            if any(o[0] == kk for o in ops):
                f.append("op:" + kk)
        if any(e[0] == "open" and e[1] > 0 for st, snap in obs for e in snap):
            f.append("output-queued")
        if any(o[0] == "req" for o in ops):
            f.append("persistent-request")
        burst = 0
        for o in ops:
            burst = burst + 1 if o[0] == "data" else (0 if o[0] == "svc" else burst)
            if burst >= 3:
                f.append("burst>=3")
                break
        return f

    def shrink(self, case):
        tls, tmo, ops = case[:3]
        rest = tuple(case[3:])
        for i in range(len(ops)):
            yield (tls, tmo, ops[:i] + ops[i + 1:]) + rest
        for i, o in enumerate(ops):
            if o[0] == "tick" and o[1] > 0:
                yield (tls, tmo, ops[:i] + [("tick", o[1] - 1)] + ops[i + 1:]) + rest

    def mutate(self, rng, case):
        tls, tmo, ops = case[:3]
        if len(case) > 3:
            return list(self.shrink(case))[:40] + [tuple(case[:3])]
        return list(self.shrink(case))[:40] + ([(not tls, tmo, ops)] if tls != "real" else [(False, tmo, ops)])


CHECK = C12()
