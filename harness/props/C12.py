"""C12 — idle HTTP server connections time out after the configured tymeout (tcp.Server -> Remoter tymer; http.Server.serviceConnects)."""
from .. import core, sx
from ..areas import tcp as T
from ..extract import tcp as xtcp


class C12(core.Check):
    pid = "C12"
    pkg = "Tcp"
    props_mod = "HioModel.Props.C12"
    design_ref = "DESIGN.md §5 C12"
    technique = ("Lean 4 theorems over a model of the remoter tymer / refresh / http idle check in virtual tyme; differential run of the compiled model against the real "
                 "http.Server + tcp.Server(+Tls) + Remoter + Tymer chain driven by a virtual Tymist (fake sockets; thorough adds real loopback sockets)")
    level_text = ("Proved for every tymeout, every timing of ticks, arrivals and services (unbounded): deadline_invariant (after any history the tymer stops exactly one tymeout after the "
                  "last service that saw traffic — no overshoot after bursts), idle_closed (no traffic for >= tymeout of virtual tyme => the next service closes a non-persistent connection), "
                  "stays_closed, active_never_closed (traffic seen within every tymeout window => never closed), persistent_never_closed, zero_tymeout_never_closes. "
                  "That the configured tymeout reaches the remoter, that TLS remoters refresh too and the order check-before-receive are carried by the correspondence run on the real classes.")
    level_note = ("Trusted: Lean kernel + standard axioms; tymes are multiples of 1/8 s so float arithmetic in Tymer is exact; the HTTP request parser's decision 'persistent' is taken from the real code, "
                  "modelled as an event.")
    quick_n = 1500
    thorough_n = 10000
    rule = ("case = (tls, tymeout in 1/8 s, ops) with ops connect(ca) / tick(d) / data(ca, n) (bytes of an unfinished request) / req(ca) (complete HTTP/1.1 request) / service; "
            "tymeout in {0,1,2,8,40}, 1-3 connections, ticks biased to the deadline -1/0/+1, bursts of several arrivals before one service. "
            "non-trivial = some connection is closed for idleness or survives past one full tymeout because of traffic; distinct by request line")
    trusted_base = ["correspondence harness/props/C12.py: compiled model vs http.Server/tcp.Server/Remoter/Tymer under a virtual Tymist", "fake socket harness/areas/tcp.py:FakeSock"]
    assumptions = ["virtual tyme advances only through Tymist.tick; tymes used are exactly representable doubles"]

    def extract(self):
        return xtcp.extract()

    def corpus(self):
        return [
            (False, 8, [("conn", 1), ("svc",), ("tick", 3), ("data", 1, 4), ("svc",), ("tick", 3), ("svc",), ("tick", 5), ("svc",), ("tick", 8), ("svc",)]),
            # F16: a burst of receives must not push the deadline n * tymeout away
            (False, 8, [("conn", 1), ("svc",), ("tick", 1), ("data", 1, 4), ("data", 1, 4), ("data", 1, 4), ("svc",), ("data", 1, 1), ("svc",), ("data", 1, 1), ("svc",), ("tick", 8), ("svc",), ("tick", 8), ("svc",)]),
            # F17: TLS remoters refresh as well
            (True, 8, [("conn", 1), ("svc",), ("tick", 6), ("data", 1, 4), ("svc",), ("tick", 6), ("svc",), ("tick", 2), ("svc",)]),
            (True, 8, [("conn", 1), ("svc",), ("tick", 8), ("svc",)]),
            (False, 8, [("conn", 1), ("svc",), ("tick", 1), ("req", 1), ("svc",), ("svc",), ("tick", 8), ("svc",), ("tick", 80), ("svc",)]),
            (False, 0, [("conn", 1), ("svc",), ("tick", 100), ("svc",)]),
            (False, 2, [("conn", 1), ("conn", 2), ("svc",), ("tick", 1), ("data", 2, 1), ("svc",), ("tick", 1), ("svc",), ("tick", 1), ("svc",)]),
        ]

    def generate(self, rng, n, tier):
        nreal = 12 if tier == "quick" else 300
        for i in range(n):
            tls = rng.random() < 0.4
            if i < nreal:
                tls = "real"
            tmo = rng.choice([0, 1, 2, 8, 8, 8, 40])
            ncon = rng.choice([1, 1, 2, 3])
            ops = []
            joined = []
            for ca in range(1, ncon + 1):
                if rng.random() < 0.7:
                    ops.append(("conn", ca))
                    joined.append(ca)
            ops.append(("svc",))
            since = 0
            for _ in range(rng.randrange(3, 25)):
                r = rng.random()
                if r < 0.3:
                    if tmo and rng.random() < 0.6:
                        d = max(0, tmo - since + rng.choice([-1, 0, 0, 1]))
                    else:
                        d = rng.choice([0, 1, 1, 2, 3, tmo, tmo + 1, rng.randrange(0, 2 * tmo + 3)])
                    ops.append(("tick", d))
                    since += d
                elif r < 0.55 and joined:
                    ca = rng.choice(joined)
                    for _ in range(rng.choice([1, 1, 1, 2, 3, 5])):
                        ops.append(("data", ca, rng.choice([1, 2, 5])))
                elif r < 0.6 and joined:
                    ops.append(("req", rng.choice(joined)))
                elif r < 0.65 and len(joined) < ncon:
                    ca = [c for c in range(1, ncon + 1) if c not in joined][0]
                    ops.append(("conn", ca))
                    joined.append(ca)
                else:
                    ops.append(("svc",))
                    if rng.random() < 0.5:
                        since = 0
            ops.append(("svc",))
            yield (tls, tmo, ops)

    def request(self, case):
        tls, tmo, ops = case
        return ("idle", tls is True, tmo, [tuple(o) for o in ops])

    def run_impl(self, case):
        if case[0] == "real":
            return T.run_real_idle(case)
        return T.run_idle(case)

    def oracle(self, case, obs):
        """per connection: `seen` = tyme of the last service at which the server could see traffic from it (or its acceptance);
        idle >= tymeout at a service => closed after it; idle < tymeout => not closed by it; persistent / tymeout 0 => never closed"""
        tls, tmo, ops = case
        bad = []
        now = 0
        order = []
        state = {}   # ca -> dict(acc, seen, undelivered, persistent, open)
        for op, (st, snap) in zip(ops, obs):
            if st != "ok":
                bad.append("service-raised")
            k = op[0]
            if k == "conn":
                order.append(op[1])
                state[op[1]] = dict(acc=False, seen=None, und=0, undreq=False, pers=False, open=True)
            elif k == "tick":
                now += op[1]
            elif k in ("data", "req"):
                s = state.get(op[1])
                if s and s["acc"] and s["open"]:
                    s["und"] += 1
                    s["undreq"] = s["undreq"] or k == "req"
            elif k == "svc":
                for i, ca in enumerate(order):
                    s = state[ca]
                    got = snap[i]
                    if not s["acc"]:
                        s["acc"] = True
                        s["seen"] = now
                        if got != "open":
                            bad.append("closed-at-accept")
                            s["open"] = False
                        continue
                    if not s["open"]:
                        if got != "closed":
                            bad.append("reopened")
                        continue
                    idle = now - s["seen"]
                    if s["pers"] or tmo == 0:
                        if got != "open":
                            bad.append("persistent-or-untimed-closed")
                            s["open"] = False
                    elif idle >= tmo:
                        if got != "closed":
                            bad.append("idle-not-closed")
                        s["open"] = False if got == "closed" else True
                    else:
                        if got != "open":
                            bad.append("active-closed")
                            s["open"] = False
                    if s["open"] and s["und"]:
                        s["seen"] = now
                        s["pers"] = s["pers"] or s["undreq"]
                        s["und"] = 0
                        s["undreq"] = False
        return sorted(set(bad))

    def nontrivial(self, case, obs):
        tls, tmo, ops = case
        closed = any("closed" in snap for st, snap in obs)
        total = sum(o[1] for o in ops if o[0] == "tick")
        survived = tmo > 0 and total >= tmo and obs and "open" in obs[-1][1] and any(o[0] in ("data", "req") for o in ops)
        return closed or survived

    def features(self, case, obs):
        tls, tmo, ops = case
        f = ["real-loopback" if tls == "real" else "tls" if tls else "plain", "tymeout:%d" % tmo, "conns:%d" % sum(1 for o in ops if o[0] == "conn")]
        if obs:
            for x in obs[-1][1]:
                f.append("end:" + x)
        if any(o[0] == "req" for o in ops):
            f.append("persistent-request")
        burst = 0
        for o in ops:
            burst = burst + 1 if o[0] == "data" else (0 if o[0] == "svc" else burst)
            if burst >= 3:
                f.append("burst>=3")
                break
        return f

    def shrink(self, case):
        tls, tmo, ops = case
        for i in range(len(ops)):
            yield (tls, tmo, ops[:i] + ops[i + 1:])
        for i, o in enumerate(ops):
            if o[0] == "tick" and o[1] > 0:
                yield (tls, tmo, ops[:i] + [("tick", o[1] - 1)] + ops[i + 1:])

    def mutate(self, rng, case):
        tls, tmo, ops = case
        return list(self.shrink(case))[:40] + ([(not tls, tmo, ops)] if tls != "real" else [(False, tmo, ops)])


CHECK = C12()
