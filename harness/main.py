import argparse
import importlib
import os
import sys

from . import core


def main():
    ap = argparse.ArgumentParser()
    ap.add_argument("pid")
    ap.add_argument("--tier", default=os.environ.get("VERIF_TIER", "quick"), choices=["quick", "thorough"])
    ap.add_argument("--seed", type=int, default=int(os.environ.get("VERIF_SEED", "0")))
    ap.add_argument("--replay")
    a = ap.parse_args()
    os.chdir(core.VERIF)
    try:
        mod = importlib.import_module(f"harness.props.{a.pid}")
        rc = core.run(mod.CHECK, a.tier, a.seed, a.replay)
    except core.Infra as ex:
        print(f"INFRA: {ex}", file=sys.stderr)
        rc = 2
    except BaseException as ex:      # a crash of the machinery is never a verdict
        if isinstance(ex, SystemExit):
            raise
        import traceback
        traceback.print_exc()
        print(f"INFRA: check crashed: {type(ex).__name__}: {ex}", file=sys.stderr)
        rc = 2
    sys.exit(rc)


if __name__ == "__main__":
    main()
