"""Shared machinery for every property check: build+audit of the Lean side, the
differential correspondence run, the implementation-side oracle, shrinking,
known-finding matching, verdict and evidence.  See DESIGN.md §2.

Exit codes: 0 property held on everything explored (KNOWN-FINDING lines allowed),
            1 VIOLATION line printed, 2 infrastructure problem (never a verdict).
"""
import fcntl
import hashlib
import json
import os
import random
import re
import subprocess
import sys
import time
import traceback

from . import sx

VERIF = os.path.dirname(os.path.dirname(os.path.abspath(__file__)))
REPO = os.environ.get("HIO_REPO", "/repo")
LEAN = os.path.join(VERIF, "lean")
EVID = os.environ.get("VERIF_EVIDENCE_DIR") or os.path.join(VERIF, "evidence")
REPLAYS = os.environ.get("VERIF_REPLAY_DIR") or os.path.join(VERIF, "replays")
FORBIDDEN = re.compile(r'\bsorry\b|\badmit\b|^axiom |native_decide|bv_decide|implemented_by|\bunsafe |maxHeartbeats 0', re.M)
STD_AXIOMS = {"propext", "Classical.choice", "Quot.sound"}


class Infra(Exception):
    """infrastructure failure -> exit 2"""


def assert_tree():
    import hio
    src = os.path.realpath(os.path.join(REPO, "src"))
    if not os.path.realpath(hio.__file__).startswith(src):
        raise Infra(f"hio imported from {hio.__file__}, expected under {src}")
    return hio.__file__


# --------------------------------------------------------------------------
# Lean side

def _strip_comments(text):
    text = re.sub(r'/-.*?-/', lambda m: "\n" * m.group(0).count("\n"), text, flags=re.S)
    return re.sub(r'--.*', '', text)


PKG = None   # lake package (directory under lean/) of the running check; set by run()


def pkgdir():
    return os.path.join(LEAN, PKG)


def lean_lock():
    f = open(os.path.join(pkgdir(), ".build.lock"), "w")
    fcntl.flock(f, fcntl.LOCK_EX)
    return f


def lake(args, timeout=1500):
    lock = lean_lock()
    try:
        p = subprocess.run(["lake"] + args, cwd=pkgdir(), capture_output=True, text=True, timeout=timeout)
    except subprocess.TimeoutExpired:
        raise Infra("lake timed out: " + " ".join(args))
    finally:
        lock.close()
    return p.returncode, p.stdout + p.stderr


def module_file(mod):
    return os.path.join(pkgdir(), *mod.split(".")) + ".lean"


def module_closure(mod, seen=None):
    """HioModel.* modules transitively imported by mod (by scanning import lines)"""
    seen = seen if seen is not None else set()
    if mod in seen or not mod.startswith("HioModel"):
        return seen
    path = module_file(mod)
    if not os.path.exists(path):
        return seen
    seen.add(mod)
    for m in re.findall(r'^import\s+(\S+)', open(path).read(), flags=re.M):
        module_closure(m, seen)
    return seen


def theorems_of(mod):
    text = _strip_comments(open(module_file(mod)).read())
    ns = []
    out = []
    for line in text.splitlines():
        m = re.match(r'\s*namespace\s+(\S+)', line)
        if m:
            ns.append(m.group(1))
            continue
        m = re.match(r'\s*end\s+(\S+)\s*$', line)
        if m and ns and ns[-1] == m.group(1):
            ns.pop()
            continue
        m = re.match(r'\s*(?:@\[[^\]]*\]\s*)?(?:private\s+|protected\s+)?theorem\s+(\S+)', line)
        if m:
            out.append(".".join(ns + [m.group(1)]))
    return out


def build_and_audit(props_mod, exe):
    """returns dict(ok, obligations, discharged, broken:[names], log, axioms:{thm:[ax]})"""
    res = dict(ok=True, obligations=0, discharged=0, broken=[], log="", axioms={}, forbidden=[])
    targets = [props_mod] + ([exe] if exe else [])
    rc, out = lake(["build"] + targets)
    res["log"] = out[-4000:]
    thms = theorems_of(props_mod)
    res["obligations"] = len(thms)
    if rc != 0:
        res["ok"] = False
        bad = sorted(set(re.findall(r'error: (\S+\.lean):\d+', out)))
        res["broken"] = [f"lake build failed in {b}" for b in bad] or ["lake build failed"]
        # the driver may still exist from an earlier build; try to build it alone for the search
        if exe:
            lake(["build", exe])
        return res
    # forbidden constructs in every module the property theorems rest on
    for m in sorted(module_closure(props_mod)):
        hits = FORBIDDEN.findall(_strip_comments(open(module_file(m)).read()))
        if hits:
            res["forbidden"].append((m, sorted(set(h.strip() for h in hits))))
    if res["forbidden"]:
        res["ok"] = False
        res["broken"] += [f"forbidden construct {h} in {m}" for m, h in res["forbidden"]]
    # axiom audit
    audit = f"import {props_mod}\n" + "".join(f"#print axioms {t}\n" for t in thms)
    apath = os.path.join(pkgdir(), ".audit", props_mod.split(".")[-1] + ".lean")
    os.makedirs(os.path.dirname(apath), exist_ok=True)
    with open(apath, "w") as f:
        f.write(audit)
    rc, out = lake(["env", "lean", apath])
    if rc != 0:
        res["ok"] = False
        res["broken"].append("axiom audit failed to run: " + out[-500:])
        return res
    for t in thms:
        m = re.search(r"'" + re.escape(t) + r"' depends on axioms: \[(.*?)\]", out, flags=re.S)
        if m:
            axs = [a.strip() for a in m.group(1).split(",") if a.strip()]
        elif re.search(r"'" + re.escape(t) + r"' does not depend on any axioms", out):
            axs = []
        else:
            res["ok"] = False
            res["broken"].append(f"{t}: no axiom report")
            continue
        res["axioms"][t] = axs
        if set(axs) <= STD_AXIOMS:
            res["discharged"] += 1
        else:
            res["ok"] = False
            res["broken"].append(f"{t}: non-standard axioms {sorted(set(axs) - STD_AXIOMS)}")
    return res


def run_driver(exe, lines, timeout=1200):
    path = os.path.join(pkgdir(), ".lake", "build", "bin", exe)
    if not os.path.exists(path):
        raise Infra(f"driver {path} missing")
    try:
        p = subprocess.run([path], input="\n".join(lines) + "\n", capture_output=True, text=True, timeout=timeout)
    except subprocess.TimeoutExpired:
        raise Infra(f"driver {exe} timed out")
    outs = p.stdout.split("\n")
    if outs and outs[-1] == "":
        outs.pop()
    if p.returncode != 0 or len(outs) != len(lines):
        raise Infra(f"driver {exe}: rc={p.returncode}, {len(outs)} replies for {len(lines)} requests; stderr={p.stderr[-400:]}")
    return outs


def write_gen(relpath, content):
    """(re)write a generated Lean file only if it changed; returns True when changed"""
    path = os.path.join(pkgdir(), relpath)
    old = open(path).read() if os.path.exists(path) else None
    if old == content:
        return False
    os.makedirs(os.path.dirname(path), exist_ok=True)
    with open(path, "w") as f:
        f.write(content)
    return True


def git_dirty(relpath):
    """is lean/<relpath> different from what is committed in /verif (i.e. regenerated differently)?"""
    p = subprocess.run(["git", "-C", VERIF, "diff", "--quiet", "--", os.path.join("lean", PKG, relpath)])
    return p.returncode != 0


# --------------------------------------------------------------------------
# known findings

def load_known():
    out = {}
    paths = [os.path.join(VERIF, "known_findings.json")]
    d = os.path.join(VERIF, "known_findings.d")
    if os.path.isdir(d):
        paths += sorted(os.path.join(d, f) for f in os.listdir(d) if f.endswith(".json"))
    for path in paths:
        if os.path.exists(path):
            for e in json.load(open(path)):
                out[e["id"]] = e
    return out


# --------------------------------------------------------------------------
# the check protocol

class Check:
    pid = None            # "C26"
    pkg = None            # lake package directory under lean/
    exe = "drv"           # driver executable name (lean_exe target), or None if no model driver
    props_mod = None      # "HioModel.Props.C26"
    quick_n = 300
    thorough_n = 5000
    search_factor = 10
    workers = 1           # >1: run_impl is mapped over a fork pool (cases/observations must pickle; adapter must be stateless)
    trusted_base = []
    assumptions = []
    rule = ""
    checker_cmd = "cd lean/<pkg> && lake build <Props module> && lake env lean .audit/<Cxx>.lean  (#print axioms on every theorem)"

    def extract(self):
        """translator step: regenerate lean/HioModel/Gen/* from /repo. returns list of relpaths written"""
        return []

    def corpus(self):
        return []

    def exhaustive(self, tier):
        """finite scope enumerated completely (list of cases), name of scope; or ([], None)"""
        return [], None

    def generate(self, rng, n, tier):
        raise NotImplementedError

    def request(self, case):
        """python value sent (sx.dumps) to the model driver"""
        return case

    def run_impl(self, case):
        """run the REAL code on the case; return canonical observation (python value)"""
        raise NotImplementedError

    def model_applies(self, case):
        """False: the case is outside the model's domain (e.g. non-dyadic floats for an Int-time model); it is run
        on the real code and judged by the oracle only"""
        return True

    def compare_view(self, case, obs):
        """the part of obs the model predicts, as the exact reply string of the driver"""
        return sx.dumps(obs)

    def oracle(self, case, obs):
        """property as predicate on the implementation's observation: list of violated clause names"""
        raise NotImplementedError

    def known(self, case, obs, clauses):
        """id of the known finding whose trigger this case satisfies, or None"""
        return None

    def nontrivial(self, case, obs):
        return True

    def features(self, case, obs):
        """keys for the distribution histogram"""
        return []

    def shrink(self, case):
        """yield smaller variants of case"""
        return []

    def mutate(self, rng, case):
        """neighbourhood for failing-input search; default none"""
        return []


def _dump_obs(obs):
    if obs is None:
        return None
    try:
        return sx.dumps(obs)
    except Exception:      # observations of oracle-only cases need not be S-expr-able
        return repr(obs)


def _key(check, case):
    return hashlib.sha1(sx.dumps(check.request(case)).encode()).hexdigest()


def _safe_impl(check, case):
    try:
        return check.run_impl(case), None
    except Infra:
        raise
    except BaseException as ex:  # adapter bug or an escaped exception the adapter did not classify
        return None, "".join(traceback.format_exception_only(type(ex), ex)).strip()


_POOL_CHECK = None


def _pool_impl(case):
    try:
        return _safe_impl(_POOL_CHECK, case)
    except Infra as ex:
        return None, f"Infra: {ex}"


def _shrink(check, case, bad):
    """greedy delta debugging: `bad(case)` true -> keep"""
    cur = case
    budget = 400
    progress = True
    while progress and budget > 0:
        progress = False
        for cand in check.shrink(cur):
            budget -= 1
            if budget <= 0:
                break
            try:
                if bad(cand):
                    cur = cand
                    progress = True
                    break
            except Infra:
                raise
            except Exception:
                continue
    return cur


def run(check, tier, seed, replay=None):
    global PKG
    PKG = check.pkg
    t0 = time.time()
    hio_file = assert_tree()
    os.makedirs(EVID, exist_ok=True)
    known = load_known()
    rng = random.Random(seed)
    pid = check.pid

    # 1. translator + build + audit
    # A translator that can no longer read the source under test (a function it reads was renamed, split or changed
    # shape) is a BROKEN TIE, not a crash of the machinery: the tables of the last successful translation stay in place,
    # the obligation is recorded as broken, and the run goes on to the failing-input search (verdict below).
    translator_broken = None
    try:
        regenerated = [p for p in check.extract() if git_dirty(p)]
    except Exception as ex:
        regenerated = []
        translator_broken = f"translator could not read the source under test: {type(ex).__name__}: {str(ex)[:300]}"
    if check.props_mod:
        b = build_and_audit(check.props_mod, check.exe)
    else:
        b = dict(ok=True, obligations=0, discharged=0, broken=[], log="", axioms={})
    if translator_broken:
        b["ok"] = False
        b["broken"].append(translator_broken)
    if tier == "thorough" and b["ok"] and check.props_mod:
        rc, out = lake(["env", "leanchecker"] + sorted(module_closure(check.props_mod)), timeout=3000)
        b["leanchecker"] = "ok" if rc == 0 else out[-800:]
        if rc != 0:
            b["ok"] = False
            b["broken"].append("leanchecker rejected the compiled modules")

    # 2. cases
    if replay:
        import ast
        r = json.load(open(replay))
        cases = [ast.literal_eval(r["case"])] if r.get("case") else []
        exh_name = None
    else:
        n = check.quick_n if tier == "quick" else check.thorough_n
        exh, exh_name = check.exhaustive(tier)
        cases = list(check.corpus()) + list(exh) + list(check.generate(rng, n, tier))

    dist = {}
    seen = set()
    nontrivial = 0
    violations = []    # (case, obs, clauses)
    disagreements = [] # (case, impl_view, model_view)
    crashes = []
    observations = []
    if check.workers > 1 and len(cases) > 50:
        import multiprocessing
        global _POOL_CHECK
        _POOL_CHECK = check
        with multiprocessing.get_context("fork").Pool(check.workers) as pool:
            results = pool.map(_pool_impl, cases, chunksize=max(1, len(cases) // (check.workers * 8)))
    else:
        results = [_safe_impl(check, case) for case in cases]
    for case, (obs, err) in zip(cases, results):
        if err is not None:
            crashes.append((case, err))
            observations.append(None)
            continue
        observations.append(obs)
        k = _key(check, case)
        if k not in seen:
            seen.add(k)
            if check.nontrivial(case, obs):
                nontrivial += 1
        for f in check.features(case, obs):
            dist[f] = dist.get(f, 0) + 1
        cl = check.oracle(case, obs)
        if cl:
            violations.append((case, obs, cl))
    if crashes:
        # an adapter that cannot classify what the real code did is an infrastructure problem
        c, e = crashes[0]
        print(f"INFRA: adapter failed on {len(crashes)} case(s); first: {e}\n  request: {sx.dumps(check.request(c))[:600]}", file=sys.stderr)
        return 2

    # 3. correspondence
    validated = 0
    model_views = {}
    if check.exe:
        idx = [i for i, o in enumerate(observations) if o is not None and check.model_applies(cases[i])]
        try:
            outs = run_driver(check.exe, [sx.dumps(check.request(cases[i])) for i in idx]) if idx else []
        except Infra as ex:
            if b["ok"]:
                raise
            outs = None   # build broke and no usable driver: correspondence is "not checked"
            b["broken"].append(f"correspondence not run: {ex}")
        if outs is not None:
            for i, o in zip(idx, outs):
                iv = check.compare_view(cases[i], observations[i])
                model_views[i] = o
                if iv == o:
                    validated += 1
                else:
                    disagreements.append((cases[i], iv, o))

    # 4. verdict
    status = 0
    lines = []
    known_hits = {}
    new_viol = []
    disagree_keys = {_key(check, c) for c, _, _ in disagreements}
    for case, obs, cl in violations:
        kid = check.known(case, obs, cl)
        if kid and kid in known and known[kid].get("status") == "open" and known[kid].get("property") == pid \
                and _key(check, case) not in disagree_keys:
            known_hits.setdefault(kid, []).append(case)
        else:
            new_viol.append((case, obs, cl))

    def save_replay(case, obs, cl, broken, note):
        os.makedirs(REPLAYS, exist_ok=True)
        path = os.path.join(REPLAYS, f"{pid}-{seed}-{int(time.time())}.json")
        doc = dict(property=pid, seed=seed, tier=tier, case=repr(case) if case is not None else None, request=sx.dumps(check.request(case)) if case is not None else None,
                   impl_observation=_dump_obs(obs),
                   oracle_clauses=cl, broken=broken, note=note,
                   how_to_run=f"./check {pid} --replay {os.path.relpath(path, VERIF)}")
        with open(path, "w") as f:
            json.dump(doc, f, indent=1)
        return os.path.relpath(path, VERIF)

    def is_new_violation(c):
        o, e = _safe_impl(check, c)
        if e is not None:
            return False
        cl = check.oracle(c, o)
        if not cl:
            return False
        kid = check.known(c, o, cl)
        return not (kid and kid in known and known[kid].get("status") == "open")

    if new_viol:
        case, obs, cl = new_viol[0]
        small = _shrink(check, case, is_new_violation)
        sobs, _ = _safe_impl(check, small)
        scl = check.oracle(small, sobs) if sobs is not None else cl
        path = save_replay(small, sobs, scl, b["broken"], f"{len(new_viol)} violating case(s) this run")
        lines.append(f"VIOLATION property={pid} replay={path}")
        status = 1
    elif (not b["ok"]) or disagreements:
        broken = list(b["broken"])
        if disagreements:
            broken.append(f"correspondence model<->implementation: {len(disagreements)} of {len(model_views)} cases differ")
        # failing-input search on the real code: more cases + neighbourhood of the disagreeing ones
        found = None
        srng = random.Random(seed ^ 0x5EED)
        pool = []
        for c, _, _ in disagreements[:50]:
            pool.extend(check.mutate(srng, c))
        n = (check.quick_n if tier == "quick" else check.thorough_n) * check.search_factor
        budget_t = time.time() + (240 if tier == "quick" else 1800)
        def more():
            yield from pool
            yield from check.generate(srng, n, tier)
        tried = 0
        for c in more():
            if time.time() > budget_t:
                break
            tried += 1
            if is_new_violation(c):
                found = c
                break
        if found is not None:
            small = _shrink(check, found, is_new_violation)
            sobs, _ = _safe_impl(check, small)
            path = save_replay(small, sobs, check.oracle(small, sobs), broken, f"found by failing-input search after {tried} cases")
            lines.append(f"VIOLATION property={pid} replay={path}")
        else:
            ex = disagreements[0] if disagreements else None
            path = save_replay(ex[0] if ex else None, None, [], broken,
                               dict(search_cases=tried, first_disagreement=dict(impl=ex[1], model=ex[2]) if ex else None,
                                    build_log=b["log"][-1500:] if not b["ok"] else ""))
            lines.append(f"VIOLATION property={pid} replay={path} no-failing-input-found")
        status = 1

    # the code under test may have written unterminated text to stderr; when both streams go to one pipe the verdict
    # lines must still start at the beginning of a line
    sys.stdout.flush()
    sys.stderr.write("\n")
    sys.stderr.flush()
    for kid, cs in sorted(known_hits.items()):
        print(f"KNOWN-FINDING: property={pid} {kid} {known[kid]['what']} ({len(cs)} case(s) this run)")
    if not replay:
        # every listed open finding of this property gets its line, also when this run's cases did not reproduce it
        for kid, e in sorted(known.items()):
            if e.get("property") == pid and e.get("status") == "open" and kid not in known_hits:
                print(f"KNOWN-FINDING: property={pid} {kid} {e['what']} (listed; not reproduced by this run's cases)")
    for l in lines:
        print(l)

    # 5. evidence
    samples = [sx.dumps(check.request(c))[:400] for c in cases[:1] + cases[len(cases) // 2: len(cases) // 2 + 1] + cases[-1:]]
    ev = dict(
        property_id=pid, tier=tier, seed=seed, level="proof",
        coverage=dict(
            obligations=b["obligations"], discharged=b["discharged"],
            checker_cmd=check.checker_cmd.replace("<Props module>", check.props_mod or "").replace("<Cxx>", pid).replace("<pkg>", check.pkg or ""),
            trusted_base=["Lean 4.33.0 kernel", "axioms: " + ", ".join(sorted({a for v in b["axioms"].values() for a in v}) or ["none"])] + list(check.trusted_base),
            theorems={t: a for t, a in b["axioms"].items()},
            evaluations=len(cases), distinct_nontrivial=nontrivial, rule=check.rule,
            samples=samples, traces_validated_against_impl=validated,
            disagreements=len(disagreements), oracle_violations=len(violations),
            known_findings={k: len(v) for k, v in known_hits.items()},
            distribution=dict(sorted(dist.items())),
            exhaustive=bool(exh_name) if not replay else False, exhaustive_scope=exh_name if not replay else None,
            regenerated=regenerated, broken=b["broken"],
            leanchecker=b.get("leanchecker"),
            python=sys.version.split()[0], hio_file=hio_file,
        ),
        assumptions=list(check.assumptions),
        wall_s=round(time.time() - t0, 2),
        violations=len(new_viol) + (1 if status == 1 and not new_viol else 0),
    )
    if not replay:   # a replay re-runs one recorded case; it is not a coverage run
        with open(os.path.join(EVID, f"{pid}.json"), "w") as f:
            json.dump(ev, f, indent=1, sort_keys=True)
    print(f"{pid} {tier} seed={seed}: theorems {b['discharged']}/{b['obligations']}, cases {len(cases)} "
          f"(nontrivial {nontrivial}), model=impl on {validated}, disagreements {len(disagreements)}, "
          f"oracle violations {len(violations)} (known {sum(len(v) for v in known_hits.values())}), {ev['wall_s']}s")
    return status
