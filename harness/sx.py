"""S-expression line protocol, Python side (mirror of lean/HioModel/Basic/Sexp.lean).

Python value  -> atom / list
  int         -> decimal
  bool        -> t / f
  None        -> -
  bytes       -> #<hex>
  str         -> bare identifier (must match [A-Za-z_][A-Za-z0-9_.:+*/<>=!?-]*), used for tags/enums only
  F(x)        -> decimal value of the IEEE-754 bit pattern of float x
  list/tuple  -> ( ... )
Text (arbitrary unicode) always crosses as utf-8 bytes.
"""
import re
import struct

_IDENT = re.compile(r'^[A-Za-z_][A-Za-z0-9_.:+*/<>=!?-]*$')


class F:
    """float carried as its bit pattern"""
    __slots__ = ("x",)

    def __init__(self, x):
        self.x = float(x)

    def bits(self):
        return struct.unpack('>Q', struct.pack('>d', self.x))[0]

    def __repr__(self):
        return f"F({self.x!r})"

    def __eq__(self, o):
        return isinstance(o, F) and self.bits() == o.bits()

    def __hash__(self):
        return hash(self.bits())


def fbits(x):
    return struct.unpack('>Q', struct.pack('>d', float(x)))[0]


def bitsf(n):
    return struct.unpack('>d', struct.pack('>Q', n))[0]


def dumps(v):
    if v is None:
        return "-"
    if v is True:
        return "t"
    if v is False:
        return "f"
    if isinstance(v, int):
        return str(v)
    if isinstance(v, F):
        return str(v.bits())
    if isinstance(v, (bytes, bytearray)):
        return "#" + bytes(v).hex()
    if isinstance(v, str):
        if not _IDENT.match(v):
            raise ValueError(f"not an identifier atom: {v!r}")
        return v
    if isinstance(v, (list, tuple)):
        return "(" + " ".join(dumps(x) for x in v) + ")"
    if isinstance(v, float):
        raise TypeError("wrap floats in sx.F")
    raise TypeError(f"cannot encode {type(v)}")


def loads(s):
    """parse one S-expression into nested lists of atom strings"""
    toks = re.findall(r'\(|\)|[^\s()]+', s)
    stack = [[]]
    for t in toks:
        if t == '(':
            stack.append([])
        elif t == ')':
            top = stack.pop()
            stack[-1].append(top)
        else:
            stack[-1].append(t)
    if len(stack) != 1 or len(stack[0]) != 1:
        raise ValueError(f"bad sexp: {s[:80]!r}")
    return stack[0][0]
